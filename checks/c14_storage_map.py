"""C14 — storage engines behave like a map under any flushes, compactions and
overlap; transactions are serializable / read one snapshot.

Client generator processes (harness entities) run *inside* the real engine and
issue put/get/delete/scan with overlapping lifetimes against the repo's
LSMTree (every compaction strategy), BTree and KVStore; every operation is
recorded in a `simkit.history.History` and every read is judged online by the
regular-register rule (the same rule as `history.check_regular_register`, which
is run again over the finished history as a cross-check).  A second scenario
family drives `TransactionManager` at READ_COMMITTED / SNAPSHOT_ISOLATION /
SERIALIZABLE.  DESIGN.md section 5, C14.
"""
from __future__ import annotations

import hashlib

from simkit import repo

repo.activate()

from happysimulator.components.storage.transaction_manager import (  # noqa: E402
    IsolationLevel,
    TransactionManager,
)
from happysimulator.core.entity import Entity  # noqa: E402
from happysimulator.core.simulation import Simulation  # noqa: E402

from simkit import c14_storage as S  # noqa: E402
from simkit.history import History, check_regular_register  # noqa: E402
from simkit.rng import seed_globals  # noqa: E402
from simkit.world import InvalidScenario, Monitor, Violation, repo_exception_sig, result, run_sim  # noqa: E402

PROPERTY = "C14"
RUNS = {"quick": 5000, "thorough": 2_000_000}
WALL = {"quick": 90, "thorough": 1500}
BATCH = {"quick": 50, "thorough": 400}
SELFTEST_RUNS = 12
RULE = (
    "each case is a generated history: 1-6 client processes with seeded start offsets and think times (0 .. 7 ms, "
    "against flush/compaction windows of 0.5-5 ms) issuing 4-25 put/get/delete/scan ops each over 3-6 keys with unique "
    "values against LSMTree (size-tiered / leveled / FIFO compaction, memtable 1-8, 2-4 levels, thresholds 1-4, optional WAL, "
    "optional CompactionTrigger events), BTree (order 3-6) or unbounded KVStore; or 2-6 transactions (1-4 ops) through "
    "TransactionManager (one isolation level for all, or a level drawn per transaction) over one of the three stores.  Non-trivial = at least one read overlapped a "
    "write/flush/compaction (storage) or at least two transactions overlapped (tx), and at least 3 reads were judged.  "
    "Distinct = distinct hashes of the recorded history (op kinds, keys, results, real-time order)."
)
STATE_MEASURE = ("distinct (engine config class, levels occupied, deepest level, flush/compaction concurrency seen, tombstone-in-sstable, "
                 "bloom-false-positive, btree depth/splits bucket) tuples; for tx runs (isolation, store, committed, conflict-aborted, "
                 "commit-between-reads) tuples")
REAL = [
    "happysimulator.components.storage.lsm_tree.LSMTree + SizeTieredCompaction / LeveledCompaction / FIFOCompaction",
    "happysimulator.components.storage.memtable.Memtable", "happysimulator.components.storage.sstable.SSTable",
    "happysimulator.sketching.bloom_filter.BloomFilter", "happysimulator.components.storage.wal.WriteAheadLog (optional)",
    "happysimulator.components.storage.btree.BTree", "happysimulator.components.datastore.kv_store.KVStore",
    "happysimulator.components.storage.transaction_manager.TransactionManager / StorageTransaction",
    "happysimulator.core.simulation.Simulation (instrumented loop), Event, ProcessContinuation",
]
STUBS = [
    "Client / TxClient entities: generator bodies interpreting the JSON op lists (harness)",
    "Kicker entity: forwards CompactionTrigger to LSMTree.handle_event and keeps the returned generator (harness)",
    "simkit.history.History + regular-register oracle (dict of write intervals per key)",
    "serialization-graph / snapshot-prefix oracles for transactions (harness)",
    "read-only introspection of LSM internals (memtable snapshots, level contents) used only to name the cause in the signature",
]
ASSUMPTIONS = [
    "a read is judged by the regular-register rule exactly as stated (latest write completed before the read began, or any "
    "write overlapping it); two writes that overlap each other may survive in either order; this is weaker than linearizability",
    "get_sync is a read of zero duration issued between two deliveries; it is judged by the same rule",
    "a scan is judged per key of its range with the scan's own interval, plus shape (sorted, unique, inside the range)",
    "values are never None (None is the API's 'absent'); 15-20 % of the writes store a falsy value (0, 0.0, False, '', (), [], {}), each at "
    "most once per key so values stay unique per key; values are compared by type and repr (0, 0.0 and False are different values); SizeTieredCompaction(min_sstables=1) is outside the input domain",
    "the disk= Resource parameter of LSMTree/BTree is accepted but never used by the repo, so disk contention cannot be injected",
    "snapshot isolation is judged on committed transactions only and the snapshot may be any commit prefix, not necessarily the one "
    "at begin (weaker reading); SERIALIZABLE is judged on committed transactions via conflict-graph acyclicity",
    "transaction scenarios either use one isolation level for all transactions or let every transaction draw its own level "
    "(begin(isolation=...)); with mixed levels the committed SERIALIZABLE transactions must be serializable together with the "
    "writes of every other committed transaction (graph: ww edges between all committed transactions, wr/rw edges only from reads of "
    "SERIALIZABLE transactions); reads of READ_COMMITTED / SNAPSHOT transactions are promised nothing beyond their own clauses",
]
EXPECTED_PROBES = [
    "probe.read_during_flush", "probe.read_during_compaction", "probe.compaction_requested_while_one_in_progress", "probe.overlapping_flushes",
    "probe.read_served_by_immutable_memtable", "probe.tombstone_dropped_at_deepest_level", "probe.four_levels_occupied", "probe.btree_depth_ge_4",
    "probe.read_overlaps_write_same_key", "probe.read_of_deleted_key", "probe.tombstone_in_sstable", "probe.deepest_level_reached",
    "probe.three_levels_occupied", "probe.bloom_false_positive_on_read_path", "probe.scan_nonempty", "probe.trigger_compaction_started",
    "probe.btree_split_during_get", "probe.btree_depth_ge_3", "probe.tx_conflict_abort", "probe.tx_commit_between_reads",
    "probe.tx_overlap", "probe.tx_read_own_write", "probe.tx_mixed_levels_committed",
    "probe.non_serializable_commit_wrote_key_read_by_open_serializable_tx", "probe.tx_commit_inside_another_commit_latency",
    "probe.concurrent_flushes_with_different_write_times", "probe.second_instance_ran_alongside",
    "probe.read_returned_falsy_value", "probe.tx_read_returned_falsy_value",
    "probe.sync_api_op_in_history", "probe.preloaded_through_put_sync", "probe.synchronous_flush_in_history",
    "probe.tx_commit_in_storage_history", "probe.l0_holds_sync_and_generator_flush_tables", "probe.mixed_origin_l0_tables_compacted",
]
SHRINK_SKIP = ("keys", "kind", "strategy", "iso", "klass", "policy")

CAP = 30_000
START_NS = [0, 0, 0, 1_000, 10_000, 100_000, 1_000_000, 2_000_000, 5_000_000]
GAP_NS = [0, 0, 0, 0, 1_000, 5_000, 10_000, 50_000, 100_000, 500_000, 1_000_000, 2_000_000, 3_000_000, 7_000_000]


# --------------------------------------------------------------------------
# generation
# --------------------------------------------------------------------------

def _keys(rng):
    n = rng.randint(3, 6)
    return sorted(f"k{i:02d}" for i in rng.sample(range(100), n))


def _ops(rng, n_keys, n_ops, mix, scans=True, sync=False, kv=False):
    """sync=True mixes the synchronous API and TransactionManager commits (put_sync underneath) into the same history."""
    out = []
    for _ in range(n_ops):
        kind = rng.choices(["put", "delete", "get", "scan"], weights=mix)[0]
        if kind == "scan" and not scans:
            kind = "get"
        if sync:
            r = rng.random()
            if kind == "put":
                kind = "put_sync" if r < 0.25 else ("txput" if r < 0.37 else "put")
            elif kind == "get" and r < 0.2:
                kind = "get_sync"
            elif kind == "delete" and kv and r < 0.3:
                kind = "delete_sync"
        op = {"op": kind, "k": rng.randrange(n_keys), "gap_ns": rng.choice(GAP_NS)}
        if kind == "scan":
            lo = rng.randrange(n_keys)
            op["k"] = lo
            op["k2"] = rng.randint(lo + 1, n_keys)
        out.append(op)
    return out


W_MIX = (45, 20, 25, 10)
R_MIX = (0, 0, 70, 30)
M_MIX = (35, 15, 35, 15)


PUT_LIKE = ("put", "put_sync", "txput")


def _fv_pairs(sc):
    """(key index, falsy value index) of every write of the primary history."""
    if sc.get("kind") == "tx":
        return [(o.get("k"), o.get("fv")) for t in sc.get("txs") or [] if isinstance(t, dict) for o in t.get("ops") or []
                if isinstance(o, dict) and o.get("op") == "w"]
    out = [(o.get("k"), o.get("fv")) for c in sc.get("clients") or [] if isinstance(c, dict) for o in c.get("ops") or []
           if isinstance(o, dict) and o.get("op") in PUT_LIKE]
    out += [(e.get("k"), e.get("fv")) for e in sc.get("preload") or [] if isinstance(e, dict)]
    return out


def _add_falsy(rng, sc):
    """A share of the writes stores a falsy value (0, 0.0, False, "", (), [], {}) instead of its unique string; each of the
    seven at most once per key, so all values written to one key stay distinct (compared by type and repr)."""
    used = {}
    if sc["kind"] == "tx":
        S.assign_falsy(rng, [o for t in sc["txs"] for o in t["ops"] if o["op"] == "w"], 0.2, used)
    else:
        S.assign_falsy(rng, [o for c in sc["clients"] for o in c["ops"] if o["op"] in PUT_LIKE], 0.15, used)
        pre = []
        for ki in sc.get("preload") or []:
            e = {"k": ki}
            S.assign_falsy(rng, [e], 0.2, used)
            pre.append(e if "fv" in e else ki)
        sc["preload"] = pre
    if sc.get("twin"):
        S.assign_falsy(rng, [o for o in sc["twin"]["ops"] if o["op"] in ("put", "put_sync", "tx")], 0.25, {})


def gen(rng, tier):
    sc = _gen_one(rng, tier)
    if rng.random() < 0.25:
        sc["twin"] = _gen_twin(rng, sc["kind"])
    _add_falsy(rng, sc)
    return sc


def _gen_one(rng, tier):
    r = rng.random()
    if r < 0.50:
        return _gen_lsm(rng)
    if r < 0.63:
        return _gen_btree(rng)
    if r < 0.67:
        return _gen_kv(rng)
    return _gen_tx(rng)


def _clients(rng, n_keys, klass, scans=True, sync=False, kv=False):
    cl = []
    if klass == "seq":
        cl.append({"start_ns": 0, "ops": _ops(rng, n_keys, rng.randint(10, 40), M_MIX, scans, sync, kv)})
    elif klass == "rw":  # dedicated writers and readers
        for _ in range(rng.randint(1, 3)):
            cl.append({"start_ns": rng.choice(START_NS), "ops": _ops(rng, n_keys, rng.randint(6, 30), W_MIX, scans, sync, kv)})
        for _ in range(rng.randint(1, 4)):
            cl.append({"start_ns": rng.choice(START_NS), "ops": _ops(rng, n_keys, rng.randint(4, 30), R_MIX, scans, sync, kv)})
    else:
        for _ in range(rng.randint(2, 8)):
            cl.append({"start_ns": rng.choice(START_NS), "ops": _ops(rng, n_keys, rng.randint(4, 24), M_MIX, scans, sync, kv)})
    return cl


TRIGGER_NS = [500_000, 1_000_000, 2_000_000, 3_000_000, 5_000_000, 8_000_000, 12_000_000, 20_000_000, 30_000_000, 45_000_000]


def _gen_lsm_wide(rng):
    """Many keys, memtable 16, bursts of single-put writers: concurrent puts over-fill a memtable to >= 32 keys (2 pages, twice the
    write time), a later burst fills a 16-key memtable whose flush starts soon after and finishes first."""
    n = rng.randint(36, 48)
    keys = sorted(f"k{i:02d}" for i in rng.sample(range(100), n))
    eng = S.gen_lsm_spec(rng, memtable=16, wal="no")
    eng["w_us"] = rng.choice([2000, 2000, 5000])
    eng["p"] = max(eng["p"], 2)
    if rng.random() < 0.3:
        eng["wal"] = S.gen_wal_spec(rng)
    clients = []
    t = 0
    for g in range(rng.randint(2, 4)):
        size = rng.choice([16, 17, 32, 33, 34]) if g == 0 else rng.choice([8, 16, 16, 17, 24])
        ks = rng.sample(range(n), min(size, n))
        for ki in ks:
            clients.append({"start_ns": t, "ops": [{"op": "put" if rng.random() < 0.85 else "delete", "k": ki, "gap_ns": 0}]})
        t += rng.choice([50_000, 100_000, 100_000, 200_000, 1_000_000])
    for _ in range(rng.randint(1, 3)):
        clients.append({"start_ns": rng.choice([0, 1_000_000, 3_000_000, 8_000_000]), "ops": _ops(rng, n, rng.randint(4, 12), R_MIX)})
    return {"kind": "lsm", "klass": "lsm/wide", "seed": rng.getrandbits(32), "keys": keys, "engine": eng, "clients": clients,
            "probe": rng.random() < 0.5, "triggers": [], "preload": []}


def _gen_lsm(rng):
    if rng.random() < 0.07:
        return _gen_lsm_wide(rng)
    # the avoidance classes of the pre-fix check (single writer, memtable 1) are folded back: every concurrent class may
    # now have several writers, any memtable size and CompactionTriggers
    klass = rng.choices(["seq", "rw", "mixed"], weights=[15, 35, 50])[0]
    keys = _keys(rng)
    if rng.random() < 0.4:  # more keys: more SSTables per level, multi-level compaction
        keys = sorted(set(keys) | {f"k{i:02d}" for i in rng.sample(range(100), rng.randint(1, 4))})
    eng = S.gen_lsm_spec(rng)
    eng["max_levels"] = rng.choice([2, 3, 3, 4, 4, 5])
    sync = rng.random() < 0.45  # synchronous API, preload and transaction commits mixed with the generator API
    sc = {"kind": "lsm", "klass": f"lsm/{klass}" + ("+sync-api" if sync else ""), "seed": rng.getrandbits(32), "keys": keys,
          "engine": eng, "clients": _clients(rng, len(keys), klass, sync=sync),
          "probe": klass != "seq" and rng.random() < 0.5,
          "triggers": [], "preload": []}
    if sync and rng.random() < 0.7:  # enough put_sync calls for 0-3 synchronous flushes before the clients start
        sc["preload"] = [rng.randrange(len(keys)) for _ in range(rng.randint(1, 3 * min(eng["memtable"], 4) + 2))]
    if (klass != "seq" and rng.random() < 0.4) or (sync and rng.random() < 0.5):
        sc["triggers"] = sorted(rng.choice(TRIGGER_NS) + rng.choice([0, 10_000, 100_000, 1_100_000]) for _ in range(rng.randint(2, 10)))
    return sc


def _gen_btree(rng):
    klass = rng.choices(["seq", "rw", "mixed"], weights=[20, 30, 50])[0]
    keys = _keys(rng)
    if rng.random() < 0.6:  # more keys -> deeper trees
        keys = sorted(set(keys) | {f"k{i:02d}" for i in rng.sample(range(100), rng.randint(3, 16))})
    eng = {"kind": "btree", "order": rng.choice([3, 3, 4, 5, 6]), "r_us": rng.choice([100, 1000, 1000, 2000]),
           "w_us": rng.choice([0, 500, 2000])}
    sync = rng.random() < 0.35
    return {"kind": "btree", "klass": f"btree/{klass}" + ("+sync-api" if sync else ""), "seed": rng.getrandbits(32), "keys": keys,
            "engine": eng, "clients": _clients(rng, len(keys), klass, sync=sync), "probe": klass != "seq" and rng.random() < 0.5,
            "triggers": [], "preload": [rng.randrange(len(keys)) for _ in range(rng.randint(0, 8))] if sync else []}


def _gen_kv(rng):
    klass = rng.choice(["seq", "mixed"])
    keys = _keys(rng)
    eng = {"kind": "kv", "r_us": rng.choice([0, 100, 1000]), "w_us": rng.choice([0, 500, 5000]), "d_us": rng.choice([0, 500, 5000])}
    sync = rng.random() < 0.35
    return {"kind": "kv", "klass": f"kv/{klass}" + ("+sync-api" if sync else ""), "seed": rng.getrandbits(32), "keys": keys, "engine": eng,
            "clients": _clients(rng, len(keys), klass, scans=False, sync=sync, kv=True),
            "probe": klass != "seq" and rng.random() < 0.5, "triggers": [],
            "preload": [rng.randrange(len(keys)) for _ in range(rng.randint(0, 4))] if sync else []}


TX_GAP_NS = [0, 0, 1_000, 5_000, 5_000, 10_000, 20_000, 100_000, 1_000_000, 2_500_000]


def _gen_tx(rng):
    iso = rng.choice(["rc", "si", "ser", "mixed", "mixed"])  # mixed: every transaction draws its own level (begin(isolation=...))
    keys = _keys(rng)[: rng.randint(3, 4)] if rng.random() < 0.6 else _keys(rng)
    skind = rng.choices(["lsm", "btree", "kv"], weights=[45, 25, 30])[0]
    if skind == "lsm":
        store = S.gen_lsm_spec(rng, memtable=rng.choice([1, 2, 3]), wal="no")
        store["max_levels"] = rng.choice([2, 3, 4])
    elif skind == "btree":
        store = {"kind": "btree", "order": rng.choice([3, 3, 4]), "r_us": rng.choice([100, 1000]), "w_us": 500}
    else:
        store = {"kind": "kv", "r_us": rng.choice([0, 0, 5, 100, 1000]), "w_us": 500, "d_us": 500}
    n = len(keys)
    txs = []
    # burst: transactions of similar shape started within a few microseconds on a store with instantaneous reads, so that
    # commits (validation, apply, 10 us commit latency) of different transactions fall into each other's commit windows
    burst = rng.random() < 0.3
    if burst and skind == "kv":
        store["r_us"] = 0
    gaps = [0, 0, 0, 1_000, 2_000, 4_000] if burst else TX_GAP_NS
    starts = [0, 0, 1_000, 2_000, 3_000, 5_000, 8_000] if burst else [0, 0, 0, 1_000, 2_000, 5_000, 10_000, 500_000, 2_000_000, 4_000_000]
    for _ in range(rng.randint(2, 8)):
        ops = []
        for _ in range(rng.randint(1, 3) if burst else rng.randint(1, 6)):
            ops.append({"op": rng.choice(["r", "r", "w"]), "k": rng.randrange(n), "gap_ns": rng.choice(gaps)})
        txs.append({"iso": rng.choice(["rc", "si", "ser", "ser"]) if iso == "mixed" else iso,
                    "start_ns": rng.choice(starts), "ops": ops,
                    "end": "abort" if rng.random() < 0.1 else "commit", "end_gap_ns": rng.choice(gaps)})
    return {"kind": "tx", "klass": f"tx/{iso}/{skind}", "seed": rng.getrandbits(32), "keys": keys, "iso": iso,
            "engine": store, "init": sorted(rng.sample(range(n), rng.randint(0, n))), "txs": txs}


# --------------------------------------------------------------------------
# storage histories
# --------------------------------------------------------------------------

class Pending(Exception):
    pass


class Twin(Entity):
    """A second, independent instance of the same engine (plus its own TransactionManager) in the same Simulation, driven by
    one sequential client and compared op by op with a plain dict: two instances must not share state.  A violation here is
    reported under its own invariant id and never mixes with the primary history."""

    def __init__(self, spec, engine_spec, iso=None, keys=None):
        super().__init__("twin")
        self.keys = list(keys or ["t00"])  # the SAME key names as the primary store: shared state would show immediately
        if not isinstance(spec, dict) or not isinstance(spec.get("ops"), list):
            raise InvalidScenario("twin")
        self.spec = spec
        self.store, self.ents = S.build_engine(engine_spec, name="db2")
        self.cls = type(self.store).__name__
        self.tm = TransactionManager("txm2", store=self.store, isolation=iso or IsolationLevel.SERIALIZABLE)
        self.model = {}
        self.bad = None
        self.done = False
        self.ops_done = 0

    def entities(self):
        return self.ents + [self.tm, self]

    def handle_event(self, event):
        return self._body()

    def _body(self):
        st, model = self.store, self.model
        for i, op in enumerate(self.spec["ops"]):
            if not isinstance(op, dict):
                raise InvalidScenario("twin op")
            g = S.gap_s(op)
            if g > 0:
                yield g
            k = op.get("k")
            if isinstance(k, bool) or not isinstance(k, int) or not 0 <= k < 64:
                raise InvalidScenario("twin key")
            key, kind = self.keys[k % len(self.keys)], op.get("op")
            val = S.make_value(op, f"w{i}")
            if kind == "put":
                yield from st.put(key, val)
                model[key] = S.canon(val)
            elif kind == "put_sync":
                st.put_sync(key, val)
                model[key] = S.canon(val)
            elif kind == "delete":
                if not hasattr(st, "delete"):
                    raise InvalidScenario("no delete")
                yield from st.delete(key)
                model.pop(key, None)
            elif kind in ("get", "get_sync"):
                got = S.canon((yield from st.get(key)) if kind == "get" else st.get_sync(key))
                if got != model.get(key):
                    self.bad = (f"C14/twin-instance-isolated/{self.cls}/sequential-read-differs-from-own-writes",
                                f"second {self.cls} instance in the same simulation: {kind}({key}) returned {got!r}, its only client "
                                f"had written {model.get(key)!r}")
                    return
            elif kind == "tx":
                tx = yield from self.tm.begin()
                got = S.canon((yield from tx.read(key)))
                yield from tx.write(key, val)
                ok = yield from tx.commit()
                if got != model.get(key) or not ok:
                    what = "spurious-abort" if not ok else "transaction-read-differs-from-own-writes"
                    self.bad = (f"C14/twin-instance-isolated/TransactionManager/{what}",
                                f"the only transaction running on the second manager (read+write {key}) "
                                f"{'was aborted' if not ok else f'read {got!r}, expected {model.get(key)!r}'}")
                    return
                model[key] = S.canon(val)
            else:
                raise InvalidScenario("twin op kind")
            self.ops_done += 1
        self.done = True


def _gen_twin(rng, kind):
    kinds = ["put", "put", "get", "get", "tx", "put_sync", "get_sync"] + (["delete"] if kind != "btree" or True else [])
    return {"start_ns": rng.choice([0, 0, 1_000, 1_000_000]),
            "ops": [{"op": rng.choice(kinds), "k": rng.randrange(5), "gap_ns": rng.choice([0, 0, 1_000, 100_000, 1_000_000])}
                    for _ in range(rng.randint(4, 14))]}


class StoreRun:
    def __init__(self, sc):
        self.sc = sc
        self.keys = sc["keys"]
        if not isinstance(self.keys, list) or not self.keys or sorted(set(self.keys)) != self.keys:
            raise InvalidScenario("keys")
        self.store, ents = S.build_engine(sc["engine"])
        self.cls = type(self.store).__name__
        self.is_lsm = sc["engine"]["kind"] == "lsm"
        self.is_btree = sc["engine"]["kind"] == "btree"
        self.tracker = S.ProcTracker()
        self.hist = History()
        self.writes = {k: [] for k in self.keys}
        self.violation: Violation | None = None
        self.c = {}  # counters
        self.reads_judged = 0
        self.clients = []
        cl = sc.get("clients")
        if not isinstance(cl, list) or not cl:
            raise InvalidScenario("clients")
        for i, spec in enumerate(cl):
            if not isinstance(spec, dict) or not isinstance(spec.get("ops"), list):
                raise InvalidScenario("client")
            self.clients.append(Client(f"c{i}", i, spec, self))
        self.kicker = S.Kicker("kicker", self.store, self.tracker) if self.is_lsm else None
        # transaction commits inside a storage history go through put_sync (READ_COMMITTED never aborts)
        self.tm = TransactionManager("txm", store=self.store, isolation=IsolationLevel.READ_COMMITTED)
        self.twin = Twin(sc["twin"], sc["engine"], None, sc["keys"]) if sc.get("twin") else None
        self.entities = ents + [self.tm] + self.clients + ([self.kicker] if self.kicker else []) + (self.twin.entities() if self.twin else [])
        self.sync_sst: dict[int, object] = {}   # SSTables created by a synchronous flush/compaction (kept alive)
        self.mixed_l0: list | None = None
        self.watch = S.LsmWatch(self.store) if self.is_lsm else None
        self.mon = None
        self.flag_states = set()
        self.overlap_seen = False
        self.fow = S.FlushOrderWatch(self.store) if self.is_lsm else None

    # ---- bookkeeping ----------------------------------------------------
    def bump(self, name):
        self.c[name] = 1

    def sync_call(self, fn, *args):
        """Call a synchronous store API; SSTables that appear during the call come from the synchronous flush path."""
        if not self.is_lsm:
            return fn(*args)
        before = {id(t) for lvl in self.store._levels for t in lvl}
        out = fn(*args)
        for lvl in self.store._levels:
            for t in lvl:
                if id(t) not in before:
                    self.sync_sst[id(t)] = t
                    self.bump("probe.synchronous_flush_in_history")
        return out

    def preload(self):
        pre = self.sc.get("preload") or []
        if not isinstance(pre, list):
            raise InvalidScenario("preload")
        for i, ki in enumerate(pre):
            fvop = {}
            if isinstance(ki, dict):  # {"k": index, "fv": falsy value index}
                fvop, ki = ki, ki.get("k")
            key = self.keys[S.check_index(ki, len(self.keys))]
            val = S.make_value(fvop, f"p{i}")
            h = self.hist.invoke("preload", "put", key, S.canon(val))
            self.writes[key].append(h)
            self.sync_call(self.store.put_sync, key, val)
            self.hist.complete(h)
        if pre:
            self.bump("probe.preloaded_through_put_sync")

    def fail(self, inv_id, detail, msg):
        if self.violation is None:
            self.violation = Violation(f"C14/{inv_id}/{self.cls}/{detail}", msg)

    def capture(self, key):
        if self.is_lsm:
            return self.watch.capture(key)
        if self.is_btree:
            return {"splits": self.store._total_splits, "depth": self.store._depth}
        return None

    def note_read_start(self, me, key_or_keys):
        ph = self.tracker.phases(skip=me)
        if self.is_lsm:
            if ph["flush"] or self.store._immutable_memtables:
                self.bump("probe.read_during_flush")
                self.c["fault.read_started_inside_flush_window"] = self.c.get("fault.read_started_inside_flush_window", 0) + 1
            if ph["compact"]:
                self.bump("probe.read_during_compaction")
                self.c["fault.read_started_inside_compaction_window"] = self.c.get("fault.read_started_inside_compaction_window", 0) + 1

    def diagnose(self, key, cap, allowed, got, opkind):
        if self.is_lsm:
            return S.diagnose_lsm(cap, allowed, got, self.store, self.overlap_seen, self.fow.inverted)
        if self.is_btree:
            if opkind in ("get", "scan") and cap is not None and cap["splits"] != self.store._total_splits:
                return "traversal-started-before-concurrent-split"
            if opkind == "get" and S.canon(self.store.get_sync(key)) in allowed:
                return "traversal-missed-present-key"
            return "tree-content-wrong"
        return "content-wrong"

    def judge(self, opkind, key, inv, ret, got, cap, opid):
        ws = self.writes[key]
        allowed = S.allowed_values(ws, inv, ret)
        self.reads_judged += 1
        if any(w["inv"] < ret and (w["ret"] is None or w["ret"] > inv) for w in ws):
            self.bump("probe.read_overlaps_write_same_key")
        if allowed == {None} and ws:
            self.bump("probe.read_of_deleted_key")
        if isinstance(got, tuple) and got[:1] == ("value",):
            self.bump("probe.read_returned_falsy_value")
        if got is S.TOMB:
            self.fail(f"{opkind}-regular", "tombstone-sentinel-returned", f"{opkind} of {key} returned the tombstone sentinel")
            return
        if got in allowed:
            return
        kind = S.bad_kind(ws, got)
        cause = self.diagnose(key, cap, allowed, got, opkind)
        comp = [f"{'del' if w['kind'] == 'delete' else 'put ' + repr(w['value'])}@c{w['client']}"
                f"[{w['inv']},{w['ret']}]" for w in ws]
        self.fail(f"{opkind}-regular", cause,
                  f"{kind}: {opkind} (op {opid}, interval [{inv},{ret}]) of key {key} returned {got!r}; allowed "
                  f"{sorted(map(repr, allowed))}; writes to the key: {comp}; cause: {cause}")

    # ---- the per-delivery hook -----------------------------------------
    def after_delivery(self, ev, mon):
        if self.watch is not None:
            ph = self.tracker.phases()
            self.watch.observe(ph["compact"])
            self.fow.observe()
            if ph["compact"] >= 2:
                self.bump("probe.overlapping_compactions")
                self.overlap_seen = True
            if ph["flush"] >= 2 or len(self.store._immutable_memtables) >= 2:
                self.bump("probe.overlapping_flushes")
            self.flag_states.add((min(ph["flush"], 2), min(ph["compact"], 2)))
            l0 = self.store._levels[0]
            if self.mixed_l0 is None:
                kinds = {id(t) in self.sync_sst for t in l0}
                if len(kinds) == 2:
                    self.mixed_l0 = list(l0)
                    self.bump("probe.l0_holds_sync_and_generator_flush_tables")
            elif not self.c.get("probe.mixed_origin_l0_tables_compacted") and not any(t in l0 for t in self.mixed_l0):
                self.bump("probe.mixed_origin_l0_tables_compacted")
        if self.violation is None and self.twin is not None and self.twin.bad:
            self.violation = Violation(*self.twin.bad)
        if self.violation is None and self.sc.get("probe"):
            self.probe_all("get_sync")
        if self.violation is not None:
            raise self.violation

    def probe_all(self, opkind):
        t = self.hist._stamp + 0.5
        for key in self.keys:
            cap = self.capture(key)
            try:
                got = S.canon(self.store.get_sync(key))
            except Exception as exc:  # repo code raising inside a plain read is a violation
                sig = repo_exception_sig(exc)
                if sig is None:
                    raise
                self.violation = Violation(f"C14/{sig}", repr(exc))
                return
            self.judge(opkind, key, t, t, got, cap, "-")
            if self.violation is not None:
                return


class Client(Entity):
    def __init__(self, name, idx, spec, run: StoreRun):
        super().__init__(name)
        self.idx = idx
        self.spec = spec
        self.run = run
        self.gen = None
        self.done = False

    def handle_event(self, event):
        self.gen = self.run.tracker.add(self._body())
        return self.gen

    def _body(self):
        R = self.run
        store, hist, keys = R.store, R.hist, R.keys
        n = len(keys)
        for i, op in enumerate(self.spec["ops"]):
            if not isinstance(op, dict):
                raise InvalidScenario("op")
            g = S.gap_s(op)
            if g > 0:
                yield g
            if R.violation is not None:
                return
            kind = op.get("op")
            if kind in ("put", "delete", "get", "put_sync", "get_sync", "delete_sync", "txput"):
                key = keys[S.check_index(op.get("k"), n)]
            if kind in ("put_sync", "get_sync", "delete_sync", "txput"):
                R.bump("probe.sync_api_op_in_history")
            if kind == "put_sync":
                val = S.make_value(op, f"v{self.idx}.{i}")
                h = hist.invoke(self.idx, "put", key, S.canon(val))
                R.writes[key].append(h)
                R.sync_call(store.put_sync, key, val)
                hist.complete(h)
            elif kind == "delete_sync":
                if not hasattr(store, "delete_sync"):
                    raise InvalidScenario("store has no delete_sync")
                h = hist.invoke(self.idx, "delete", key)
                R.writes[key].append(h)
                store.delete_sync(key)
                hist.complete(h)
            elif kind == "txput":
                val = S.make_value(op, f"v{self.idx}.{i}")
                h = hist.invoke(self.idx, "put", key, S.canon(val))
                R.writes[key].append(h)
                tx = yield from R.tm.begin()
                yield from tx.write(key, val)
                before = {id(t) for lvl in store._levels for t in lvl} if R.is_lsm else None
                ok = yield from tx.commit()
                if R.is_lsm:
                    for lvl in store._levels:
                        for t in lvl:
                            if id(t) not in before and not any("_compact" in S.gen_chain(g) or "_flush_memtable" in S.gen_chain(g)
                                                               for g in R.tracker.procs if g.gi_frame is not None and g is not self.gen):
                                R.sync_sst[id(t)] = t
                hist.complete(h)
                R.bump("probe.tx_commit_in_storage_history")
                if not ok:
                    R.fail("tx-commit", "read-committed-transaction-aborted", f"READ_COMMITTED transaction writing {key} was aborted")
            elif kind == "get_sync":
                h = hist.invoke(self.idx, "get", key)
                cap = R.capture(key)
                got = S.canon(store.get_sync(key))
                hist.complete(h, got)
                R.judge("get_sync", key, h["inv"], h["ret"], got, cap, h["id"])
            if kind in ("put_sync", "get_sync", "delete_sync", "txput"):
                if R.violation is not None:
                    return
                continue
            if kind == "put":
                val = S.make_value(op, f"v{self.idx}.{i}")
                h = hist.invoke(self.idx, "put", key, S.canon(val))
                R.writes[key].append(h)
                yield from store.put(key, val)
                hist.complete(h)
            elif kind == "delete":
                h = hist.invoke(self.idx, "delete", key)
                R.writes[key].append(h)
                yield from store.delete(key)
                hist.complete(h)
            elif kind == "get":
                h = hist.invoke(self.idx, "get", key)
                cap = R.capture(key)
                R.note_read_start(self.gen, key)
                if R.is_lsm:
                    self._bloom_probe(key)
                    if cap["view"] and cap["view"][0][0] == "imm":
                        R.bump("probe.read_served_by_immutable_memtable")
                got = S.canon((yield from store.get(key)))
                hist.complete(h, got)
                if R.is_btree and cap["splits"] != store._total_splits:
                    R.bump("probe.btree_split_during_get")
                    R.c["fault.btree_split_during_get"] = R.c.get("fault.btree_split_during_get", 0) + 1
                R.judge("get", key, h["inv"], h["ret"], got, cap, h["id"])
            elif kind == "scan":
                if R.sc["engine"]["kind"] == "kv":
                    raise InvalidScenario("kv has no scan")
                lo_i = S.check_index(op.get("k"), n)
                hi_i = S.check_index(op.get("k2"), n + 1, "scan bound")
                if hi_i <= lo_i:
                    raise InvalidScenario("empty scan range")
                lo, hi = keys[lo_i], (keys[hi_i] if hi_i < n else S.HI_SENTINEL)
                rng_keys = keys[lo_i:hi_i]
                h = hist.invoke(self.idx, "scan", None, None, lo=lo, hi=hi)
                caps = {k: R.capture(k) for k in rng_keys}
                R.note_read_start(self.gen, rng_keys)
                got = [(k, S.canon(v)) for k, v in (yield from store.scan(lo, hi))]
                hist.complete(h, [[k, (v if v is not S.TOMB else "<TOMBSTONE>")] for k, v in got])
                self._judge_scan(h, got, rng_keys, lo, hi, caps)
            else:
                raise InvalidScenario("op kind")
            if R.violation is not None:
                return
        self.done = True

    def _bloom_probe(self, key):
        R = self.run
        if R.c.get("probe.bloom_false_positive_on_read_path"):
            return
        for level in R.store._levels:
            for sst in reversed(level):
                present, _ = S.sst_lookup(sst, key)
                if present:
                    return
                if sst.contains(key):
                    R.bump("probe.bloom_false_positive_on_read_path")
                    return

    def _judge_scan(self, h, got, rng_keys, lo, hi, caps):
        R = self.run
        ks = [k for k, _ in got]
        if got:
            R.bump("probe.scan_nonempty")
        if ks != sorted(ks):
            R.fail("scan-shape", "unsorted", f"scan [{lo},{hi}) returned keys {ks}")
        elif len(set(ks)) != len(ks):
            R.fail("scan-shape", "duplicate-key", f"scan [{lo},{hi}) returned keys {ks}")
        elif any(not (lo <= k < hi) for k in ks):
            R.fail("scan-shape", "key-outside-range", f"scan [{lo},{hi}) returned keys {ks}")
        elif any(k not in R.writes for k in ks):
            R.fail("scan-shape", "unknown-key", f"scan [{lo},{hi}) returned keys {ks}")
        if R.violation is not None:
            return
        d = dict(got)
        for k in rng_keys:
            R.judge("scan", k, h["inv"], h["ret"], d.get(k), caps[k], h["id"])
            if R.violation is not None:
                return


def _hist_digest(ops) -> str:
    hh = hashlib.blake2b(digest_size=12)
    for o in ops:
        hh.update(repr((o["client"], o["kind"], o["key"], o["value"], o["inv"], o["ret"], o["result"])).encode())
    return hh.hexdigest()


def _cross_check(R: StoreRun):
    """The finished history, judged once more by the kit's own checker."""
    ops = []
    for o in R.hist.ops:
        if o["kind"] == "scan":
            if o["ret"] is None:
                continue
            d = {k: v for k, v in o["result"]}
            lo, hi = o["lo"], o["hi"]
            for k in R.keys:
                if lo <= k < hi:
                    ops.append({"id": o["id"], "kind": "scanread", "key": k, "inv": o["inv"], "ret": o["ret"],
                                "result": d.get(k), "value": None})
        else:
            ops.append(o)
    return check_regular_register(ops, read_kinds=("get", "scanread"))


def run_store(sc):
    seed_globals(sc.get("seed", 0) if isinstance(sc.get("seed", 0), int) else 0)
    R = StoreRun(sc)
    sim = Simulation(entities=R.entities)
    for c in R.clients:
        st = c.spec.get("start_ns", 0)
        if isinstance(st, bool) or not isinstance(st, int) or st < 0:
            raise InvalidScenario("start")
        sim.schedule(S.start_event(st, c))
    if R.twin is not None:
        sim.schedule(S.start_event(R.twin.spec.get("start_ns", 0) if isinstance(R.twin.spec.get("start_ns", 0), int) else 0, R.twin))
    trig = sc.get("triggers") or []
    if trig and not R.is_lsm:
        raise InvalidScenario("triggers need an LSM tree")
    for t in trig:
        if isinstance(t, bool) or not isinstance(t, int) or t < 0:
            raise InvalidScenario("trigger")
        sim.schedule(S.start_event(t, R.kicker, "kick"))
    mon = Monitor(sim, cap=CAP, invariant=R.after_delivery)
    R.mon = mon
    try:
        R.preload()
    except InvalidScenario:
        raise
    except Exception as exc:  # noqa: BLE001  (public API, valid arguments)
        esig = repo_exception_sig(exc)
        if esig is None:
            raise
        return result(sig=f"C14/{esig}", msg=f"put_sync while preloading: {exc!r}", klass=sc.get("klass", sc["kind"]))
    status, payload = run_sim(sim)
    sig = msg = None
    if status == "violation":
        sig, msg = payload.sig, payload.msg
    elif status == "exception":
        sig, msg = f"C14/{payload.sig}", payload.msg
    elif status == "budget":
        sig, msg = f"C14/no-progress/{R.cls}/delivery-cap", str(payload)
    else:
        if R.violation is not None:  # raised flag but run ended on that very delivery
            sig, msg = R.violation.sig, R.violation.msg
        else:
            if R.twin is not None and R.twin.bad:
                sig, msg = R.twin.bad
            elif not all(c.done for c in R.clients) or (R.twin is not None and not R.twin.done):
                sig, msg = f"C14/no-progress/{R.cls}/client-never-finished", "a client operation never completed"
            else:
                R.probe_all("final")
                if R.violation is not None:
                    sig, msg = R.violation.sig, R.violation.msg
    # cross-check against the kit's checker (both directions)
    kit = _cross_check(R)
    if sig is None and kit is not None:
        raise RuntimeError(f"online oracle missed what check_regular_register reports: {kit}")
    if sig is not None and "-regular/" in sig and (sig.startswith("C14/get-regular") or sig.startswith("C14/scan-regular")) \
            and "tombstone-sentinel" not in sig and kit is None:
        raise RuntimeError(f"online oracle reported {sig} but check_regular_register accepts the history")
    if R.watch is not None:
        R.watch.scan_tombstones()
        if R.watch.saw_tombstone_in_sst:
            R.bump("probe.tombstone_in_sstable")
        if R.watch.deepest_level_used >= sc["engine"]["max_levels"] - 1:
            R.bump("probe.deepest_level_reached")
        if R.watch.max_levels_occupied >= 3:
            R.bump("probe.three_levels_occupied")
        if R.watch.max_levels_occupied >= 4:
            R.bump("probe.four_levels_occupied")
        if R.watch.tombstone_dropped:
            R.bump("probe.tombstone_dropped_at_deepest_level")
        if R.watch.compaction_requests_while_busy:
            R.bump("probe.compaction_requested_while_one_in_progress")
        if R.fow.different_write_times:
            R.bump("probe.concurrent_flushes_with_different_write_times")
        if R.fow.younger_waited:
            R.bump("probe.younger_sstable_waited_for_older_flush")
        if R.kicker.fired:
            R.bump("probe.trigger_compaction_started")
            R.c["fault.compaction_trigger_started_compaction"] = R.kicker.fired
        st = R.store.stats
        state = repr((sc["engine"]["strategy"], min(sc["engine"]["memtable"], 3), sc["engine"]["max_levels"],
                      R.watch.max_levels_occupied, R.watch.deepest_level_used, sorted(R.flag_states)[-1:] if R.flag_states else None,
                      R.watch.saw_tombstone_in_sst, bool(R.c.get("probe.bloom_false_positive_on_read_path")),
                      min(st.memtable_flushes, 4), min(st.compactions, 4)))
        R.c["flushes"] = st.memtable_flushes
        R.c["compactions"] = st.compactions
    elif R.is_btree:
        if R.store._depth >= 3:
            R.bump("probe.btree_depth_ge_3")
        if R.store._depth >= 4:
            R.bump("probe.btree_depth_ge_4")
        state = repr(("btree", sc["engine"]["order"], R.store._depth, min(R.store._total_splits, 6),
                      bool(R.c.get("probe.btree_split_during_get"))))
        R.c["btree_splits"] = R.store._total_splits
    else:
        state = repr(("kv", len(R.store._data)))
    overl = any(R.c.get(p) for p in ("probe.read_overlaps_write_same_key", "probe.read_during_flush",
                                     "probe.read_during_compaction", "probe.btree_split_during_get"))
    R.c["reads_judged"] = R.reads_judged
    if R.twin is not None:
        R.bump("probe.second_instance_ran_alongside")
        R.c["twin_ops"] = R.twin.ops_done
    R.c["ops_completed"] = sum(1 for o in R.hist.ops if o["ret"] is not None)
    return result(sig=sig, msg=msg or "", digest=_hist_digest(R.hist.ops), nontrivial=bool(overl and R.reads_judged >= 3),
                  counters=R.c, sim_s=mon.last_time_ns / 1e9, deliveries=mon.seq, klass=sc.get("klass", sc["kind"]), state=state)


# --------------------------------------------------------------------------
# transactions
# --------------------------------------------------------------------------

ISO = {"rc": IsolationLevel.READ_COMMITTED, "si": IsolationLevel.SNAPSHOT_ISOLATION, "ser": IsolationLevel.SERIALIZABLE}


class TxRun:
    def __init__(self, sc):
        self.sc = sc
        self.keys = sc["keys"]
        if not isinstance(self.keys, list) or not self.keys or sorted(set(self.keys)) != self.keys:
            raise InvalidScenario("keys")
        if sc.get("iso") not in ISO and sc.get("iso") != "mixed":
            raise InvalidScenario("iso")
        self.store, ents = S.build_engine(sc["engine"])
        self.scls = type(self.store).__name__
        self.tm = TransactionManager("txm", store=self.store, isolation=ISO.get(sc["iso"], IsolationLevel.SNAPSHOT_ISOLATION))
        self._stamp = 0
        self.recs = []
        txs = sc.get("txs")
        if not isinstance(txs, list) or not txs:
            raise InvalidScenario("txs")
        self.clients = [TxClient(f"t{i}", i, spec, self) for i, spec in enumerate(txs)]
        self.twin = Twin(sc["twin"], sc["engine"], ISO.get(sc["iso"]), sc["keys"]) if sc.get("twin") else None
        self.entities = ents + [self.tm] + self.clients + (self.twin.entities() if self.twin else [])
        self.initial = {}
        for ki in sc.get("init") or []:
            k = self.keys[S.check_index(ki, len(self.keys))]
            self.initial[k] = f"init.{k}"

    def stamp(self):
        self._stamp += 1
        return self._stamp


class TxClient(Entity):
    def __init__(self, name, idx, spec, run: TxRun):
        super().__init__(name)
        if not isinstance(spec, dict) or not isinstance(spec.get("ops"), list):
            raise InvalidScenario("tx")
        self.idx, self.spec, self.run = idx, spec, run
        iso = spec.get("iso", run.sc["iso"]) if run.sc["iso"] == "mixed" else run.sc["iso"]
        if iso not in ISO:
            raise InvalidScenario("tx iso")
        self.rec = {"id": idx, "iso": iso, "reads": [], "writes": {}, "begin": None, "cstamp": None, "end": None,
                    "outcome": "unfinished", "splits": None}
        run.recs.append(self.rec)

    def handle_event(self, event):
        return self._body()

    def _body(self):
        R, rec = self.run, self.rec
        n = len(R.keys)
        rec["begin"] = R.stamp()
        tx = yield from (R.tm.begin(isolation=ISO[rec["iso"]]) if R.sc["iso"] == "mixed" else R.tm.begin())
        for i, op in enumerate(self.spec["ops"]):
            if not isinstance(op, dict):
                raise InvalidScenario("op")
            g = S.gap_s(op)
            if g > 0:
                yield g
            key = R.keys[S.check_index(op.get("k"), n)]
            if op.get("op") == "r":
                own = key in rec["writes"]
                inv = R.stamp()
                sp = getattr(R.store, "_total_splits", None)
                got = S.canon((yield from tx.read(key)))
                rec["reads"].append({"key": key, "got": got, "inv": inv, "ret": R.stamp(), "own": own,
                                     "expect_own": rec["writes"].get(key),
                                     "split": sp is not None and sp != R.store._total_splits})
            elif op.get("op") == "w":
                val = S.make_value(op, f"t{self.idx}.{i}")
                yield from tx.write(key, val)
                rec["writes"][key] = S.canon(val)
            else:
                raise InvalidScenario("tx op")
        g = S.gap_s({"gap_ns": self.spec.get("end_gap_ns", 0)})
        if g > 0:
            yield g
        if self.spec.get("end") == "abort":
            tx.abort()
            rec["outcome"] = "user-abort"
            rec["end"] = R.stamp()
        elif self.spec.get("end") == "commit":
            rec["cstamp"] = R.stamp()
            ok = yield from tx.commit()
            rec["end"] = R.stamp()
            rec["outcome"] = "committed" if ok else "conflict-abort"
        else:
            raise InvalidScenario("tx end")


def _judge_tx(R: TxRun, counters: dict):
    """Fine invariants first (own-write reads, committed-value reads, final
    state), then the statement's coarse ones (serial order / one snapshot)."""
    iso = R.sc["iso"]
    recs = R.recs
    committed = sorted((r for r in recs if r["outcome"] == "committed"), key=lambda r: r["cstamp"])
    writer_of = {}
    for r in recs:
        for k, v in r["writes"].items():
            writer_of[v] = r
    # version timeline per key: [(commit stamp, value, tx id)]
    ver = {k: [(0, R.initial.get(k), "init")] for k in R.keys}
    for r in committed:
        for k, v in r["writes"].items():
            ver[k].append((r["cstamp"], v, r["id"]))
    # note: a transaction may have overwritten its own earlier write to a key; only the final value is a version
    all_written = set()
    for r in recs:
        all_written.update(r["writes"].values())

    reads = sorted(((rd, r) for r in recs for rd in r["reads"]), key=lambda x: x[0]["ret"])
    for rd, r in reads:
        k, got = rd["key"], rd["got"]
        if isinstance(got, tuple) and got[:1] == ("value",):
            counters["probe.tx_read_returned_falsy_value"] = 1
        if rd["own"]:
            counters["probe.tx_read_own_write"] = 1
            if got != rd["expect_own"]:
                return (f"C14/tx-read-own-write/StorageTransaction/{iso}",
                        f"tx {r['id']} read {k} after writing {rd['expect_own']!r} but got {got!r}")
            continue
        vs = ver[k]
        ok = False
        for i, (c, v, _) in enumerate(vs):
            nxt = vs[i + 1][0] if i + 1 < len(vs) else None
            if c <= rd["ret"] and (nxt is None or nxt >= rd["inv"]) and v == got:
                ok = True
                break
        if ok:
            continue
        if got is not None and got not in all_written and got not in R.initial.values():
            what = "never-written-value"
        elif got in writer_of and (writer_of[got]["outcome"] != "committed" or writer_of[got]["cstamp"] > rd["ret"]):
            what = "uncommitted-or-aborted-value"
        else:
            what = "not-the-committed-value-during-read"
        cause = "traversal-started-before-concurrent-split" if rd.get("split") else "store-content"
        return (f"C14/tx-read-committed-value/{R.scls}/{what}/{cause}",
                f"tx {r['id']} ({iso}) read {k} during [{rd['inv']},{rd['ret']}] and got {got!r}; committed versions of the key "
                f"(commit stamp, value, tx): {vs}")
    for k in R.keys:
        try:
            final = S.canon(R.store.get_sync(k))
        except Exception as exc:  # noqa: BLE001
            esig = repo_exception_sig(exc)
            if esig is None:
                raise
            return (f"C14/tx/{esig}", f"get_sync({k!r}) after the run: {exc!r}")
        if final != ver[k][-1][1]:
            return (f"C14/tx-final-state/{R.scls}/{iso}", f"after all commits key {k} holds {final!r}, last committed version is {ver[k][-1]}")

    if any(r["iso"] == "ser" for r in committed):
        # direct serialization graph over ALL committed transactions: every transaction's writes (ww by commit order), and
        # the reads of the SERIALIZABLE ones (wr into them, rw out of them).  Reads of READ_COMMITTED / SNAPSHOT transactions add
        # no edges: they are not promised serializability.  Any cycle therefore passes through a SERIALIZABLE transaction.
        idx = {r["id"]: r for r in committed}
        edges = {}
        def add(a, b, kind):
            if a != b and a in idx and b in idx:
                edges.setdefault(a, {}).setdefault(b, kind)
        for k, vs in ver.items():
            for i in range(1, len(vs) - 1):
                add(vs[i][2], vs[i + 1][2], "ww")
        for r in committed:
            if r["iso"] != "ser":
                continue
            for rd in r["reads"]:
                if rd["own"]:
                    continue
                vs = ver[rd["key"]]
                pos = next((i for i, (_, v, _) in enumerate(vs) if v == rd["got"]), None)
                if pos is None:
                    continue
                add(vs[pos][2], r["id"], "wr")
                if pos + 1 < len(vs):
                    add(r["id"], vs[pos + 1][2], "rw")
        cyc = _find_cycle(edges)
        if cyc:
            kinds = sorted(edges[a][b] for a, b in zip(cyc, cyc[1:] + cyc[:1]))
            levels = {t: idx[t]["iso"] for t in cyc}
            if any(v != "ser" for v in levels.values()):
                counters["probe.cycle_involves_non_serializable_writer"] = 1
            return (f"C14/serializable-cycle/TransactionManager/{'-'.join(kinds)}",
                    f"committed transactions {cyc} (levels {levels}) form a dependency cycle {kinds} through a SERIALIZABLE "
                    f"transaction; no serial order of the SERIALIZABLE transactions together with the other committed writes exists")
    for r in committed:
        if r["iso"] == "si":
            lo, hi = 0, len(committed)  # admissible snapshot = number of commits included, in [lo, hi]
            detail = None
            for rd in r["reads"]:
                if rd["own"]:
                    continue
                vs = ver[rd["key"]]
                pos = next((i for i, (_, v, _) in enumerate(vs) if v == rd["got"]), None)
                if pos is None:
                    continue
                # commits included must contain version pos and not version pos+1
                first = 0 if pos == 0 else 1 + next(i for i, c in enumerate(committed) if c["id"] == vs[pos][2])
                last = len(committed) if pos + 1 >= len(vs) else next(i for i, c in enumerate(committed) if c["id"] == vs[pos + 1][2])
                lo, hi = max(lo, first), min(hi, last)
                if lo > hi:
                    detail = rd
                    break
            if detail is not None:
                return ("C14/si-one-snapshot/StorageTransaction/read-sees-commit-later-than-an-earlier-read",
                        f"committed SNAPSHOT_ISOLATION tx {r['id']} reads {[(x['key'], x['got']) for x in r['reads'] if not x['own']]} "
                        f"cannot come from one snapshot: no commit prefix explains all of them (commit order "
                        f"{[c['id'] for c in committed]})")
    return None


def _find_cycle(edges):
    color = {}
    stack = []

    def dfs(u):
        color[u] = 1
        stack.append(u)
        for v in sorted(edges.get(u, {})):
            if color.get(v, 0) == 0:
                c = dfs(v)
                if c:
                    return c
            elif color[v] == 1:
                return stack[stack.index(v):]
        stack.pop()
        color[u] = 2
        return None

    for u in sorted(edges):
        if color.get(u, 0) == 0:
            c = dfs(u)
            if c:
                return c
    return None


def run_tx(sc):
    seed_globals(sc.get("seed", 0) if isinstance(sc.get("seed", 0), int) else 0)
    R = TxRun(sc)
    sim = Simulation(entities=R.entities)
    try:
        for k, v in R.initial.items():
            R.store.put_sync(k, v)
    except Exception as exc:  # noqa: BLE001  (public API, valid arguments: a repo exception is a violation)
        esig = repo_exception_sig(exc)
        if esig is None:
            raise
        return result(sig=f"C14/tx/{esig}", msg=f"put_sync of initial data: {exc!r}", klass=sc.get("klass", "tx"))
    for c in R.clients:
        st = c.spec.get("start_ns", 0)
        if isinstance(st, bool) or not isinstance(st, int) or st < 0:
            raise InvalidScenario("start")
        sim.schedule(S.start_event(st, c))
    if R.twin is not None:
        sim.schedule(S.start_event(R.twin.spec.get("start_ns", 0) if isinstance(R.twin.spec.get("start_ns", 0), int) else 0, R.twin))
    mon = Monitor(sim, cap=CAP)
    status, payload = run_sim(sim)
    counters = {}
    if R.twin is not None:
        counters["probe.second_instance_ran_alongside"] = 1
    sig = msg = None
    if status == "violation":
        sig, msg = f"C14/{payload.sig}", payload.msg
    elif status == "exception":
        sig, msg = f"C14/tx/{payload.sig}", payload.msg
    elif status == "budget":
        sig, msg = "C14/no-progress/TransactionManager/delivery-cap", str(payload)
    elif R.twin is not None and R.twin.bad:
        sig, msg = R.twin.bad
    elif any(r["outcome"] == "unfinished" for r in R.recs) or (R.twin is not None and not R.twin.done):
        sig, msg = "C14/no-progress/TransactionManager/transaction-never-finished", "a transaction process never finished"
    else:
        bad = _judge_tx(R, counters)
        if bad:
            sig, msg = bad
    recs = R.recs
    spans = [(r["begin"], r["end"]) for r in recs if r["begin"] is not None and r["end"] is not None]
    overlap = any(a[0] < b[1] and b[0] < a[1] for i, a in enumerate(spans) for b in spans[i + 1:])
    if overlap:
        counters["probe.tx_overlap"] = 1
    if any(r["outcome"] == "conflict-abort" for r in recs):
        counters["probe.tx_conflict_abort"] = 1
    cstamps = [(r["cstamp"], set(r["writes"])) for r in recs if r["outcome"] == "committed"]
    between = False
    for r in recs:
        rds = [x for x in r["reads"] if not x["own"]]
        if len(rds) >= 2:
            for c, wk in cstamps:
                if rds[0]["ret"] < c < rds[-1]["inv"] and wk & {x["key"] for x in rds}:
                    between = True
    comm = [r for r in recs if r["outcome"] == "committed"]
    # a commit attempt whose validation instant lies between another commit's start and its return (its commit latency)
    if any(a is not b and a["cstamp"] is not None and b["end"] is not None and a["cstamp"] < b["cstamp"] < a["end"]
           for a in comm for b in recs if b["cstamp"] is not None):
        counters["probe.tx_commit_inside_another_commit_latency"] = 1
    if len({r["iso"] for r in comm}) >= 2:
        counters["probe.tx_mixed_levels_committed"] = 1
    for r in recs:
        if r["iso"] == "ser" and r["begin"] is not None and r["end"] is not None and r["reads"]:
            rk = {x["key"] for x in r["reads"]}
            if any(o is not r and o["iso"] != "ser" and o["cstamp"] is not None and r["begin"] < o["cstamp"] < r["end"] and rk & set(o["writes"])
                   for o in comm):
                counters["probe.non_serializable_commit_wrote_key_read_by_open_serializable_tx"] = 1
    if between:
        counters["probe.tx_commit_between_reads"] = 1
        counters["fault.tx_commit_landed_between_two_reads"] = 1
    counters["tx_committed"] = sum(1 for r in recs if r["outcome"] == "committed")
    counters["tx_conflict_aborts"] = sum(1 for r in recs if r["outcome"] == "conflict-abort")
    counters["reads_judged"] = sum(len(r["reads"]) for r in recs)
    hh = hashlib.blake2b(digest_size=12)
    for r in recs:
        hh.update(repr((r["id"], r["begin"], r["cstamp"], r["end"], r["outcome"], sorted(r["writes"].items()),
                        [(x["key"], x["got"], x["inv"], x["ret"]) for x in r["reads"]])).encode())
    state = repr((sc["iso"], R.scls, min(counters["tx_committed"], 4), min(counters["tx_conflict_aborts"], 3), between, overlap))
    return result(sig=sig, msg=msg or "", digest=hh.hexdigest(), nontrivial=bool(overlap and counters["reads_judged"] >= 3),
                  counters=counters, sim_s=mon.last_time_ns / 1e9, deliveries=mon.seq, klass=sc.get("klass", "tx"), state=state)


def run(sc):
    if not isinstance(sc, dict) or "engine" not in sc or "keys" not in sc:
        raise InvalidScenario("scenario")
    S.check_fv_unique(_fv_pairs(sc))
    if sc.get("kind") == "tx":
        return run_tx(sc)
    if sc.get("kind") in ("lsm", "btree", "kv"):
        if sc["engine"].get("kind") != sc["kind"]:
            raise InvalidScenario("kind mismatch")
        return run_store(sc)
    raise InvalidScenario("kind")
