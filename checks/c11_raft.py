"""C11 — Raft: one leader per term, matching logs, durable commits, identical
applies, truthful submit futures; liveness on a calm network.

3-5 real RaftNode objects on a full mesh of real NetworkLinks whose delays are
keyed (simkit.chaosnet.KeyedLatency), a generated fault schedule (partitions
incl. bridge/asymmetric, crash/pause windows, loss windows) plus *reactive*
faults that land right after a leader change / an accepted command / a commit,
generated clients, generated election and heartbeat timeouts.  The oracle
(simkit/c11_oracle.py) runs after every delivery.  DESIGN.md section 5, C11.
"""
from __future__ import annotations

from simkit import repo

repo.activate()

from happysimulator.components.consensus.raft import RaftNode  # noqa: E402
from happysimulator.core.event import Event  # noqa: E402
from happysimulator.core.simulation import Simulation  # noqa: E402
from happysimulator.core.temporal import Instant  # noqa: E402

from simkit.c11_oracle import RaftOracle, RecordingSM  # noqa: E402
from simkit.chaosnet import FaultDriver, build_mesh, gen_faults, gen_latency_profile  # noqa: E402
from simkit.rng import seed_globals  # noqa: E402
from simkit.world import InvalidScenario, Monitor, Violation, result, run_sim  # noqa: E402

PROPERTY = "C11"
RUNS = {"quick": 2000, "thorough": 600_000}
WALL = {"quick": 50, "thorough": 1500}
BATCH = {"quick": 25, "thorough": 200}
SELFTEST_RUNS = 8
SHRINK_BUDGET_S = {"quick": 40.0, "thorough": 120.0}
RULE = (
    "each case is a generated cluster (3-5 RaftNodes, generated election/heartbeat timeouts from comfortable to tight, keyed "
    "per-message delays from 0.5% to 40% of the election timeout with stragglers/slow links), a client script (unique commands to "
    "the current self-believed leader or to a fixed node) and, except in the fault-free/liveness classes, a static fault schedule "
    "(partition incl. bridge/asymmetric, crash, pause, loss) plus reactive faults triggered by leader change / accepted command / "
    "commit; every class judges every invariant strictly; classes: faulty (60%, deep: up to 10 static + 16 reactive faults, 15-45 election timeouts long), elections-only, single-candidate, fault-free, liveness; "
    "non-trivial = a leader was elected and (fault classes) at least one fault window actually fired and (classes with clients) "
    "at least one command was committed; distinct = distinct delivery digests (time, event type, target) among non-trivial runs"
)
STATE_MEASURE = ("distinct multisets over nodes of (role, dense term-rank, dense log-length-rank, dense commit-index-rank), "
                 "sampled after every delivery that changed a node")
REAL = ["happysimulator.components.consensus.raft.RaftNode", "happysimulator.components.consensus.log.Log",
        "happysimulator.components.network.network.Network (routing, partitions)",
        "happysimulator.components.network.link.NetworkLink (loss, delay)", "happysimulator.core.simulation.Simulation",
        "happysimulator.core.sim_future.SimFuture"]
STUBS = ["RecordingSM (StateMachine protocol: records applied commands)", "KeyedLatency (injected LatencyDistribution)",
         "FaultDriver + reactive fault rules (harness; sets the same _crashed flag / Network.partition API the repo's faults use)",
         "client callbacks calling RaftNode.submit (harness)"]
ASSUMPTIONS = [
    "crash = the repo's own fault model: the node's _crashed flag is set, every event addressed to it (messages and its own "
    "timers) is dropped, all state including current_term/voted_for/log is kept (Raft's persistent state survives; volatile "
    "state survives too, i.e. a crash is a long pause); restart clears the flag; in runs with restart_start=true the harness "
    "also calls the public RaftNode.start() at restart to re-arm the election timer (otherwise a restarted node has no timer "
    "until it hears from a leader); liveness is never judged in classes with faults",
    "clients do not call submit() on a node that is down at that instant (a real client's request would be lost)",
    "no message duplication (the statement lists delay, reordering, loss, partitions, crashes/restarts only)",
    "Leader Completeness is read by term: an entry first seen committed under term T must be in the log of every node observed "
    "as leader with a term >= T (a stale lower-term leader that is still unaware is not a 'later' leader)",
    "Log Matching is judged on the logs that exist at the same moment (not against logs of the past)",
    "applies are observed through the state machine: the k-th apply call on a node must be the command at its log index k",
    "the match_index fine invariant is judged when a success response is sent, and only while responder and addressee are both "
    "still in the response's term and the addressee still leads it (otherwise Raft itself allows the logs to diverge)",
    "after a leader handled an AppendEntries response from a peer whose term is not above its own, its match_index entry for "
    "that peer must be a prefix the peer really shares with it (covers replies of older terms that are wrongly accepted)",
    "liveness class: no faults, every delay <= 5% of election_timeout_min, election_timeout_max >= 2*min, heartbeat <= 0.3*min; "
    "'established' = one LEADER and all other nodes FOLLOWER in its term; must happen within 10*election_timeout_max; commands "
    "are then submitted only at instants at which that holds; bound = 20 heartbeats + 6 max delays after the last submit",
    "a future of a submit to a non-leader may stay unresolved forever (the statement only restricts what it may resolve with)",
]
EXPECTED_PROBES = [
    "probe.leader_change_while_entry_uncommitted", "probe.two_candidates_one_term", "probe.truncation",
    "probe.follower_log_longer_than_append", "probe.request_vote_after_same_term_append",
    "probe.submitted_entry_overwritten_on_submitter", "probe.future_resolved_ok", "probe.leader_stepped_down",
    "probe.two_self_believed_leaders_different_terms", "probe.submit_to_stale_leader", "probe.candidate_timed_out_again",
    "probe.reactive_fault_fired", "probe.live_all_applied_in_order",
    "probe.revote_refused_after_same_term_append", "probe.longer_follower_reported_only_what_matched",
    "probe.future_of_overwritten_submit_left_unresolved", "probe.earlier_term_entry_committed_under_later_term",
    "probe.same_node_leader_in_two_terms", "probe.five_leader_elections", "probe.next_index_backed_off_3_times",
    "probe.success_response_of_older_term_reached_leader", "probe.reelected_after_a_peer_lost_what_it_had_acknowledged",
    "fault.partition", "fault.crash", "fault.pause", "fault.loss", "fault.restart",
    "fault.msgs_dropped_by_partition", "fault.msgs_dropped_by_loss", "fault.stragglers",
]
SHRINK_SKIP = ("n_nodes", "cmd", "node_et", "klass", "mode", "tolerate")

# Historical: before the three defects were fixed (repo commits dd03045, 63d1aef, 3e9a003) a "coarse" class tolerated their fine
# breaches (tagged, not raised).  gen() no longer produces that class; the tags are kept so the pre-fix replays in findings/ still load.
KNOWN_FINE_TAGS = [
    "vote-once-per-term:after-same-term-AppendEntries",
    "match-index-le-matching-prefix:reported-own-last-index-beyond-appended",
    "future-own-command:index-reused-after-truncation",
]
FAULT_CLASSES = ("faulty", "coarse", "elections-only", "single-candidate")   # "coarse": only in pre-fix replay files
MAX_REACTIVE = 16
NEVER = 1.0e6   # election timeout of nodes that must never become candidates (single-candidate class)


# ----------------------------------------------------------------------------- generator
def _gen_clients(rng, horizon, et_min, n, count):
    out = []
    t = 0.0
    for c in range(count):
        if out and rng.random() < 0.25:
            t = out[-1]["t"] if rng.random() < 0.5 else round(out[-1]["t"] + rng.uniform(0, 0.02 * et_min), 6)
        else:
            t = round(rng.uniform(0.5 * et_min, horizon * 0.92), 6)
        to = "leader" if rng.random() < 0.7 else rng.randrange(n)
        out.append({"t": t, "to": to, "pick": rng.randrange(4), "cmd": c + 1})
    out.sort(key=lambda o: (o["t"], o["cmd"]))
    return out


def _gen_react(rng, n, et_min, et_max, hb, scale, with_clients, deep=False):
    rules = []
    ons = ["leader", "leader"] + (["append", "append", "commit"] if with_clients else [])
    for _ in range(rng.choice([1, 2, 2, 3, 4]) if deep else rng.choice([0, 1, 1, 2, 3])):
        on = rng.choice(ons)
        rules.append({
            "on": on,
            "nth": rng.randint(1, 3),
            "every": rng.choice([0, 0, 1, 2]),
            "delay": round(rng.choice([0.0, rng.uniform(0, hb), rng.uniform(0, 3 * scale), rng.uniform(0, et_min)]), 6),
            "kind": rng.choice(["isolate", "isolate", "pause", "crash", "minority", "cut", "isolate-asym"]),
            "k": rng.randrange(n),
            "len": round(et_max * rng.uniform(0.6, 4.0), 6),
        })
    return rules


def _former_leader_episode(rng, sc, et_min, et_max, hb):
    """Bias towards 'a former leader is elected again': the leader is cut off together with one follower right after it
    accepted a burst of commands (they reach that follower only), the majority side elects another leader which commits a
    shorter log and overwrites both after the heal; that leader is then isolated so that the first one can win again."""
    cut_len = round(et_max * rng.uniform(2.5, 5.0), 6)
    sc["react"] = [
        {"on": "append", "nth": rng.randint(1, 3), "every": 0, "delay": 0.0, "kind": "minority", "k": rng.randrange(5), "len": cut_len},
        {"on": "leader", "nth": 2, "every": rng.choice([0, 1, 2]), "delay": round(cut_len * rng.uniform(0.9, 1.3), 6),
         "kind": rng.choice(["isolate", "pause", "crash"]), "k": 0, "len": round(et_max * rng.uniform(2.0, 5.0), 6)},
    ] + sc["react"][:1]
    # a burst for the leader that is about to be cut off, a trickle afterwards
    t0 = round(rng.uniform(2 * et_max, 4 * et_max), 6)
    base = 1000
    burst = [{"t": round(t0 + j * rng.uniform(0, 0.3 * hb), 6), "to": "leader", "pick": 0, "cmd": base + j} for j in range(rng.randint(3, 7))]
    later = [{"t": round(t0 + cut_len * rng.uniform(0.4, 0.9), 6), "to": "newest", "pick": j, "cmd": base + 50 + j} for j in range(rng.randint(1, 2))]
    sc["clients"] = sorted([c for c in sc["clients"] if not (t0 - et_max < c["t"] < t0 + cut_len)] + burst + later,
                           key=lambda o: (o["t"], o["cmd"]))
    sc["horizon"] = round(max(sc["horizon"], t0 + 3 * cut_len + 12 * et_max), 6)
    if rng.random() < 0.7:      # one node with a clear timeout advantage: it leads first and is the likely winner again
        f = rng.randrange(5)
        sc["node_et"] = [[et_min, round(et_min * 1.2, 6)] if j == f else [round(et_min * 1.6, 6), round(max(et_max, et_min * 1.7) * 1.5, 6)]
                         for j in range(5)]
    if rng.random() < 0.5:      # replies of the first leadership that arrive during the second one
        sc["profile"] = {"base": sc["profile"].get("base", 0.001), "jitter": sc["profile"].get("jitter", 0.0),
                         "straggler_p": rng.choice([0.03, 0.08, 0.15]),
                         "straggler": round((cut_len + 4 * et_max) * rng.uniform(0.6, 1.6), 6)}
    sc["episode"] = "former-leader"


def gen(rng, tier):
    klass = rng.choices(["faulty", "elections-only", "single-candidate", "fault-free", "liveness"],
                        weights=[60, 6, 6, 12, 16])[0]
    n = rng.choice([3, 3, 4, 5, 5]) if klass != "faulty" else rng.choice([3, 4, 5, 5, 5])
    et_min = rng.choice([0.15, 0.3, 0.5, 1.0])
    sc = {"klass": klass, "mode": "coarse" if klass == "coarse" else "fine", "seed": rng.getrandbits(48),
          "net_seed": rng.getrandbits(48), "n_nodes": n, "faults": [], "react": [], "clients": [], "per_link": {},
          "restart_start": rng.random() < 0.6}
    if klass == "liveness":
        et_max = round(et_min * rng.uniform(2.0, 3.0), 6)
        hb = round(et_min * rng.choice([0.05, 0.1, 0.2, 0.3]), 6)
        dmax = et_min * rng.choice([0.002, 0.01, 0.03, 0.05])
        base = round(dmax * rng.uniform(0.1, 0.5), 9)
        sc["profile"] = {"base": base, "jitter": round(dmax - base, 9) * 0.999}
        bound = round(10 * et_max, 6)
        k = rng.randint(3, 12)
        ts = sorted(round(bound + rng.uniform(0.0, 10 * hb), 6) for _ in range(k))
        if rng.random() < 0.4 and k > 3:
            ts[1] = ts[0]            # a burst at one instant
        sc["live"] = {"bound": bound, "dmax": round(dmax, 9), "cmds": [{"t": t, "cmd": c + 1} for c, t in enumerate(ts)]}
        sc["horizon"] = round(ts[-1] + 20 * hb + 6 * dmax + 1e-3, 6)
        sc.update(et_min=et_min, et_max=et_max, hb=hb, cap=120_000)
        return sc

    et_max = round(et_min * rng.choice([1.05, 1.3, 2.0, 3.0]), 6)
    hb = round(et_min * rng.choice([0.05, 0.1, 0.2, 0.33, 0.5, 0.9]), 6)
    scale = et_min * rng.choice([0.005, 0.02, 0.05, 0.15, 0.4])
    sc["profile"] = gen_latency_profile(rng, scale)
    r = rng.random()
    if r < 0.15:      # one slow node
        s = rng.randrange(n)
        mult = rng.choice([3.0, 10.0])
        for j in range(n):
            if j != s:
                sc["per_link"][f"n{s}->n{j}"] = {"slow_mult": mult}
                sc["per_link"][f"n{j}->n{s}"] = {"slow_mult": mult}
    elif r < 0.3:     # one slow directed link
        a, b = rng.sample(range(n), 2)
        sc["per_link"][f"n{a}->n{b}"] = {"slow_mult": rng.choice([5.0, 30.0])}
    horizon = et_max * (rng.uniform(15, 45) if klass == "faulty" else rng.uniform(10, 30))
    est = horizon / hb * (n - 1) * 6
    if est > 32_000:
        horizon = max(8 * et_max, 32_000 * hb / ((n - 1) * 6))
    horizon = round(horizon, 6)
    sc.update(et_min=et_min, et_max=et_max, hb=hb, horizon=horizon, cap=90_000)

    with_clients = klass != "elections-only"
    if with_clients:
        sc["clients"] = _gen_clients(rng, horizon, et_min, n, rng.randint(5, 36) if klass == "faulty" else rng.randint(3, 24))
    if klass == "single-candidate":
        c = rng.randrange(n)
        sc["node_et"] = [[et_min, et_max] if j == c else [NEVER, NEVER] for j in range(n)]
    if klass == "fault-free":
        if rng.random() < 0.3:
            sc["profile"] = {"base": round(scale, 9), "jitter": 0.0}     # constant equal delays
        return sc

    kinds = rng.choice([("partition", "crash", "pause", "loss"), ("partition",), ("crash", "pause"), ("partition", "loss"),
                        ("partition", "pause"), ("loss", "crash")])
    faults = gen_faults(rng, n, horizon, kinds=kinds, max_faults=rng.choice([3, 6, 10]) if klass == "faulty" else rng.choice([2, 4, 6]),
                        min_len=round(0.5 * et_min, 4), max_len_frac=0.3)
    if "partition" in kinds and rng.random() < 0.4:       # bridge: two nodes cannot talk, everybody else reaches both
        a, b = rng.sample(range(n), 2)
        st = round(rng.uniform(0, horizon * 0.7), 4)
        faults.append({"kind": "partition", "a": [a], "b": [b], "start": st,
                       "end": round(st + rng.uniform(et_min, horizon * 0.3), 4), "asym": rng.random() < 0.3})
    sc["faults"] = faults
    sc["react"] = _gen_react(rng, n, et_min, et_max, hb, scale, with_clients, deep=klass == "faulty")
    if klass == "faulty" and n == 5 and rng.random() < 0.35:
        _former_leader_episode(rng, sc, et_min, et_max, hb)
    return sc


# ----------------------------------------------------------------------------- validation
def _num(x, lo, hi, what):
    if isinstance(x, bool) or not isinstance(x, (int, float)) or not (lo <= x <= hi):
        raise InvalidScenario(f"{what} out of range: {x!r}")
    return x


def _validate(sc):
    n = sc.get("n_nodes")
    if n not in (3, 4, 5):
        raise InvalidScenario("n_nodes")
    _num(sc.get("et_min"), 1e-3, 100, "et_min")
    _num(sc.get("et_max"), sc["et_min"], 100, "et_max")
    _num(sc.get("hb"), 1e-3, 100, "hb")
    _num(sc.get("horizon"), 1e-3, 400, "horizon")
    _num(sc.get("cap"), 100, 200_000, "cap")
    prof = sc.get("profile")
    if not isinstance(prof, dict):
        raise InvalidScenario("profile")
    _num(prof.get("base", 0.001), 1e-6, 100, "profile.base")
    for k in ("jitter", "straggler", "straggler_p"):
        _num(prof.get(k, 0.0), 0.0, 1000, k)
    _num(prof.get("slow_mult", 1.0), 0.01, 1000, "slow_mult")
    for v in sc.get("per_link", {}).values():
        _num(v.get("slow_mult", 1.0), 0.01, 1000, "slow_mult")
    ne = sc.get("node_et")
    if ne is not None and (len(ne) != n or any(len(p) != 2 or p[0] <= 0 or p[1] < p[0] for p in ne)):
        raise InvalidScenario("node_et")
    seen = set()
    for c in sc.get("clients", []):
        _num(c.get("t"), 0.0, 400, "client.t")
        to = c.get("to")
        if to not in ("leader", "newest") and (isinstance(to, bool) or not isinstance(to, int) or not 0 <= to < n):
            raise InvalidScenario("client.to")
        if c.get("cmd") in seen or c.get("cmd") is None:
            raise InvalidScenario("duplicate cmd")
        seen.add(c["cmd"])
    for f in sc.get("faults", []):
        k = f.get("kind")
        _num(f.get("start"), 0.0, 400, "fault.start")
        if f.get("end") is not None:
            _num(f["end"], f["start"], 500, "fault.end")
        if k == "partition":
            a, b = f.get("a"), f.get("b")
            if not a or not b or set(a) & set(b) or any(not (0 <= x < n) for x in a + b):
                raise InvalidScenario("partition groups")
        elif k in ("crash", "pause"):
            if not 0 <= f.get("node", -1) < n:
                raise InvalidScenario("fault.node")
            if k == "pause" and f.get("end") is None:
                raise InvalidScenario("pause needs end")
        elif k == "loss":
            _num(f.get("rate"), 0.0, 1.0, "loss.rate")
            if not (0 <= f.get("src", -1) < n and 0 <= f.get("dst", -1) < n):
                raise InvalidScenario("loss link")
        else:
            raise InvalidScenario(f"fault kind {k!r}")
    for r in sc.get("react", []):
        if r.get("on") not in ("leader", "append", "commit") or r.get("kind") not in (
                "isolate", "isolate-asym", "pause", "crash", "minority", "cut"):
            raise InvalidScenario("react rule")
        _num(r.get("delay", 0.0), 0.0, 100, "react.delay")
        _num(r.get("len"), 1e-3, 400, "react.len")
        _num(r.get("nth", 1), 0, 1000, "react.nth")
    if sc.get("klass") == "liveness":
        lv = sc.get("live")
        if not isinstance(lv, dict) or "bound" not in lv or not lv.get("cmds"):
            raise InvalidScenario("live")
        if sc.get("faults") or sc.get("react") or sc.get("per_link"):
            raise InvalidScenario("liveness class is fault-free")
        dmax = _num(lv.get("dmax"), 0.0, 0.05 * sc["et_min"] + 1e-12, "live.dmax")
        if prof.get("base", 0.001) + prof.get("jitter", 0.0) > dmax + 1e-12 or prof.get("straggler_p", 0.0) or \
                prof.get("slow_mult", 1.0) != 1.0:
            raise InvalidScenario("liveness delays must stay <= dmax")
        if sc["et_max"] < 2 * sc["et_min"] or sc["hb"] > 0.3 * sc["et_min"] + 1e-12 or sc.get("node_et"):
            raise InvalidScenario("liveness timing premise")
        if abs(lv["bound"] - 10 * sc["et_max"]) > 1e-6:
            raise InvalidScenario("bound is 10*et_max")
        last = 0.0
        ids = set()
        for c in lv["cmds"]:
            if _num(c.get("t"), lv["bound"], 400, "live.t") < last or c.get("cmd") in ids or c.get("cmd") is None:
                raise InvalidScenario("live cmds")
            last = c["t"]
            ids.add(c["cmd"])
        if sc["horizon"] < last + 20 * sc["hb"] + 6 * dmax:
            raise InvalidScenario("horizon shorter than the liveness bound")


# ----------------------------------------------------------------------------- harness
class Harness:
    def __init__(self, sc):
        self.sc = sc
        n = sc["n_nodes"]
        self.sms = [RecordingSM() for _ in range(n)]
        ne = sc.get("node_et")
        self.nodes = [
            RaftNode(name=f"n{i}", network=None, state_machine=self.sms[i],
                     election_timeout_min=(ne[i][0] if ne else sc["et_min"]),
                     election_timeout_max=(ne[i][1] if ne else sc["et_max"]),
                     heartbeat_interval=sc["hb"])
            for i in range(n)
        ]
        self.net, self.links = build_mesh("raftnet", self.nodes, sc["net_seed"], sc["profile"], sc.get("per_link") or None)
        for nd in self.nodes:
            nd._network = self.net          # build_mesh creates the Network after the nodes exist
            nd.set_peers(self.nodes)
        self.sim = Simulation(entities=[self.net, *self.nodes], end_time=Instant.from_seconds(sc["horizon"]))
        tol = sc.get("tolerate", KNOWN_FINE_TAGS) if sc.get("mode", "fine") == "coarse" else ()
        self.oracle = RaftOracle(self.nodes, self.sms, self.net, fine_raises=True,
                                 tolerate=tol if tol == "*" else tuple(tol), on_react=self.react)
        self.mon = Monitor(self.sim, cap=int(sc["cap"]), invariant=self.oracle.after_delivery)
        self.fd = FaultDriver(self.net, self.nodes, self.links, [dict(f) for f in sc.get("faults", [])])
        self.rules = sc.get("react", [])
        self.react_count = {"leader": 0, "append": 0, "commit": 0}
        self.reactive_fired = 0
        self.counters = {}
        self.live_accepted = []
        self.live_skipped = 0
        self.live_problem = None

    def c(self, key, k=1):
        self.counters[key] = self.counters.get(key, 0) + k

    def now_s(self):
        return self.nodes[0].now.to_seconds()

    # boundary events are placed 1 us inside the window edge so that float<->ns rounding can never make
    # FaultDriver._apply see "not yet started" / "not yet ended" at the boundary itself
    def _boundary_events(self, times):
        return [Event.once(time=Instant.from_seconds(t + 1e-6), event_type="chaos.boundary", fn=self._boundary, daemon=True)
                for t in sorted(set(times))]

    def _boundary(self, ev):
        was = [bool(getattr(nd, "_crashed", False)) for nd in self.nodes]
        self.fd._apply(ev)
        out = []
        if self.sc.get("restart_start"):
            for i, nd in enumerate(self.nodes):
                if was[i] and not getattr(nd, "_crashed", False):
                    out.extend(nd.start())
                    self.c("probe.restart_rearmed_timer")
        return out

    def react(self, kind, i):
        self.react_count[kind] += 1
        c = self.react_count[kind]
        for r in self.rules:
            if r.get("on") != kind or self.reactive_fired >= MAX_REACTIVE:
                continue
            nth, every = r.get("nth", 1), r.get("every", 0)
            if c == nth or (every and c > nth and (c - nth) % every == 0):
                self._fire(r, i)

    def _fire(self, r, i):
        n = len(self.nodes)
        start = round(self.now_s() + r.get("delay", 0.0), 6)
        end = round(start + r["len"], 6)
        k = r["kind"]
        other = (i + 1 + r.get("k", 0) % (n - 1)) % n
        rest = [j for j in range(n) if j != i]
        if k == "isolate":
            f = {"kind": "partition", "a": [i], "b": rest, "asym": False}
        elif k == "isolate-asym":     # the leader can still hear the others but not reach them
            f = {"kind": "partition", "a": [i], "b": rest, "asym": True}
        elif k == "minority":
            f = {"kind": "partition", "a": sorted([i, other]), "b": [j for j in range(n) if j not in (i, other)], "asym": False}
            if not f["b"]:
                return
        elif k == "cut":
            f = {"kind": "partition", "a": [i], "b": [other], "asym": False}
        else:
            f = {"kind": k, "node": i}
        f.update(start=start, end=end, reactive=True)
        self.fd.faults.append(f)
        self.sim.schedule(self._boundary_events([start, end]))
        self.reactive_fired += 1
        self.c("probe.reactive_fault_fired")
        self.c(f"react.{r['on']}.{k}")

    # -- clients
    def _client(self, op):
        def fn(ev):
            to = op["to"]
            if to in ("leader", "newest"):
                ls = [j for j, nd in enumerate(self.nodes) if nd.is_leader and not getattr(nd, "_crashed", False)]
                if not ls:
                    self.c("client.no_leader_to_submit_to")
                    return None
                if to == "newest":      # the self-believed leader with the highest term
                    top = max(self.nodes[j].current_term for j in ls)
                    ls = [j for j in ls if self.nodes[j].current_term == top]
                j = ls[op.get("pick", 0) % len(ls)]
            else:
                j = to
            nd = self.nodes[j]
            if getattr(nd, "_crashed", False):
                self.c("client.target_down_skipped")
                return None
            cmd = f"c{op['cmd']}"
            fut = nd.submit(cmd)
            rec = self.oracle.register_submit(j, cmd, fut, ev.time.nanoseconds)
            if rec["leader"]:
                self.c("client.accepted_by_leader")
                if nd.current_term < max(x.current_term for x in self.nodes):
                    self.c("probe.submit_to_stale_leader")
                self.oracle.on_react("append", j)
            else:
                self.c("client.submitted_to_non_leader")
            return None
        return Event.once(time=Instant.from_seconds(op["t"]), event_type="client.submit", fn=fn, daemon=True)

    # -- liveness
    def _live_check_established(self, ev):
        o = self.oracle
        bound_ns = int(self.sc["live"]["bound"] * 1e9)
        if o.established_at is None or o.established_at > bound_ns:
            self.live_problem = ("no-leader-established",
                                 f"no single leader (all others followers in its term) within 10*election_timeout_max="
                                 f"{self.sc['live']['bound']}s on a fault-free network with delays <= {self.sc['live']['dmax']}s; "
                                 f"roles={o.role} terms={o.term}")
        return None

    def _live_submit(self, op):
        def fn(ev):
            l = self.oracle.unique_leader()
            if l is None:
                self.live_skipped += 1
                return None
            cmd = f"c{op['cmd']}"
            fut = self.nodes[l].submit(cmd)
            rec = self.oracle.register_submit(l, cmd, fut, ev.time.nanoseconds)
            self.live_accepted.append((cmd, l, rec))
            return None
        return Event.once(time=Instant.from_seconds(op["t"]), event_type="client.submit", fn=fn, daemon=True)

    def schedule_all(self):
        sc = self.sc
        for nd in self.nodes:
            self.sim.schedule(nd.start())
        times = []
        for f in self.fd.faults:
            times.append(f["start"])
            if f.get("end") is not None:
                times.append(f["end"])
        if times:
            self.sim.schedule(self._boundary_events(times))
        for op in sc.get("clients", []):
            self.sim.schedule(self._client(op))
        if sc.get("klass") == "liveness":
            lv = sc["live"]
            self.sim.schedule(Event.once(time=Instant.from_seconds(lv["bound"]), event_type="live.check",
                                         fn=self._live_check_established, daemon=True))
            for op in lv["cmds"]:
                self.sim.schedule(self._live_submit(op))

    def liveness_verdict(self):
        if self.live_problem:
            raise Violation(f"{PROPERTY}/liveness/RaftNode/{self.live_problem[0]}", self.live_problem[1])
        want = [c for c, _, _ in self.live_accepted]
        wset = set(want)
        for i, sm in enumerate(self.sms):
            got = [c for c in sm.applied if c in wset]
            if got != want:
                missing = [c for c in want if c not in got]
                kind = "command-not-applied-by-every-node" if missing else "applied-out-of-submission-order"
                raise Violation(f"{PROPERTY}/liveness/RaftNode/{kind}",
                                f"{self.nodes[i].name} applied {got} of the commands submitted to the established leader "
                                f"in the order {want} (bound: 20 heartbeats + 6 max delays after the last submit)")
        for cmd, l, rec in self.live_accepted:
            if not rec["fut"].is_resolved:
                raise Violation(f"{PROPERTY}/liveness/RaftNode/future-unresolved",
                                f"submit({cmd!r}) to established leader {self.nodes[l].name} never resolved")
        if want:
            self.c("probe.live_all_applied_in_order")
        if self.live_skipped:
            self.c("live.submit_skipped_no_established_leader", self.live_skipped)


# ----------------------------------------------------------------------------- run
def run(sc):
    _validate(sc)
    seed_globals(sc["seed"])
    h = Harness(sc)
    h.schedule_all()
    seed_globals(sc["seed"] ^ 0x5EED)      # re-seed after model construction (start() drew the first timeouts)
    status, payload = run_sim(h.sim)
    sig, msg = None, ""
    if status in ("violation", "exception"):
        sig, msg = payload.sig, payload.msg
        if status == "exception":
            sig = f"{PROPERTY}/{sig}"
    else:
        try:
            h.oracle.final()
            if sc.get("klass") == "liveness" and status == "ok":
                h.liveness_verdict()
        except Violation as v:
            sig, msg = v.sig, v.msg
    o = h.oracle
    counters = {}
    for k, v in h.counters.items():
        if k.startswith("probe."):
            counters[k] = int(v > 0)
            counters["n." + k[6:]] = v
        else:
            counters[k] = v
    for k, v in o.probes.items():
        counters["probe." + k] = int(v > 0)      # probes: number of RUNS in which the branch was reached
        counters["n." + k] = v                    # raw occurrence counts
    fired = h.fd.counters()
    counters.update(fired)
    counters["run.budget_exhausted"] = int(status == "budget")
    if sig:
        counters[f"run.stopped_by_violation.{sc.get('klass', 'faulty')}"] = 1
    counters["raft.leaders_elected"] = o.leader_events
    counters["raft.entries_committed"] = len(o.ledger)
    counters["raft.max_term"] = max(o.term)
    klass = sc.get("klass", "faulty")
    fault_fired = any(fired.get(k, 0) for k in ("fault.partition", "fault.crash", "fault.pause", "fault.loss"))
    nontrivial = o.leader_events >= 1
    if klass in FAULT_CLASSES:
        nontrivial = nontrivial and fault_fired
    if klass != "elections-only":
        nontrivial = nontrivial and len(o.ledger) >= 1
    return result(sig=sig, msg=msg, digest=h.mon.digest, nontrivial=nontrivial, counters=counters,
                  sim_s=h.mon.last_time_ns / 1e9, deliveries=h.mon.seq, klass=klass, state=sorted(o.states))
