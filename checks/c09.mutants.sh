#!/bin/bash
# each line: file|old|new
cd /verif
run() { echo "##### $1"; shift; /venv/bin/python tools/mutant.py "$@" C09 -- --runs 8000 --jobs 6 2>&1 | grep -v conda | grep -E "^violation|^  |RESULT|rc=|pattern|Error" | cut -c1-260; }
run M01-resource-lifo-wake --replace happysimulator/components/resource.py 'waiter = self._waiters[0]

            if self._available >= waiter.amount:
                self._waiters.popleft()' 'waiter = self._waiters[-1]

            if self._available >= waiter.amount:
                self._waiters.pop()'
run M02-resource-scan-past-head --replace happysimulator/components/resource.py '            else:
                # Not enough capacity for head-of-line waiter — stop
                break' '            else:
                # Not enough capacity for head-of-line waiter — try the next one
                self._waiters.rotate(-1)
                if self._waiters[0] is waiter or all(w.amount > self._available for w in self._waiters):
                    break'
run M03-grant-release-not-idempotent --replace happysimulator/components/resource.py '        if self._released:
            return
        self._released = True
        self._resource._do_release(self._amount)' '        self._released = True
        self._resource._do_release(self._amount)'
run M04-resource-release-uncapped-no-wake --replace happysimulator/components/resource.py '        self._wake_waiters()

    def _wake_waiters' '        if self._available == self._capacity:
            self._wake_waiters()

    def _wake_waiters'
run M05-semaphore-wake-no-decrement --replace happysimulator/components/sync/semaphore.py '                self._waiters.popleft()
                self._count -= waiter.count' '                self._waiters.popleft()'
run M06-semaphore-release-uncapped --replace happysimulator/components/sync/semaphore.py '        if future_count > self._capacity:' '        if future_count > self._capacity + count:'
run M07-mutex-handoff-unlocks --replace happysimulator/components/sync/mutex.py '            # Lock transfers directly to next waiter
            self._locked = True' '            # Lock transfers directly to next waiter
            self._locked = False'
run M08-mutex-wake-last --replace happysimulator/components/sync/mutex.py 'waiter = self._waiters.popleft()' 'waiter = self._waiters.pop()'
run M09-rwlock-reader-ignores-writer --replace happysimulator/components/sync/rwlock.py '        if self._write_locked:
            return False
        if self._has_waiting_writer():' '        if self._has_waiting_writer():'
run M10-rwlock-batch-ignores-max --replace happysimulator/components/sync/rwlock.py '                if self._max_readers and self._active_readers >= self._max_readers:
                    break

                self._waiters.popleft()' '                self._waiters.popleft()'
run M11-rwlock-writer-woken-with-readers --replace happysimulator/components/sync/rwlock.py '            if self._active_readers == 0:
                self._waiters.popleft()' '            if self._active_readers <= 1:
                self._waiters.popleft()'
run M12-barrier-off-by-one --replace happysimulator/components/sync/barrier.py 'if len(self._waiters) + 1 >= self._parties:' 'if len(self._waiters) >= self._parties:'
run M13-condition-notify-wakes-extra --replace happysimulator/components/sync/condition.py 'while self._waiters and woken < n:' 'while self._waiters and woken <= n:'
run M14-pool-handoff-not-activated --replace happysimulator/components/client/connection_pool.py '            # Reactivate connection for waiter
            self._activate_connection(connection)
            callback(connection)' '            # Reactivate connection for waiter
            callback(connection)'
run M15-pool-timeout-keeps-waiter --replace happysimulator/components/client/connection_pool.py '        self._remove_waiter(waiter_id)
        self._timeouts += 1' '        self._timeouts += 1'
run M16-pool-idle-close-below-min --replace happysimulator/components/client/connection_pool.py 'if self._total_connections > self._min_connections:' 'if self._total_connections >= self._min_connections:'
run M17-pool-release-lifo-waiter --replace happysimulator/components/client/connection_pool.py 'waiter_id, _request_time, callback = self._waiters.popleft()' 'waiter_id, _request_time, callback = self._waiters.pop()'
run M18-bulkhead-queue-admit-off-by-one --replace happysimulator/components/resilience/bulkhead.py '        if self._active_count >= self._max_concurrent:
            return None

        # Get next waiting request' '        if self._active_count > self._max_concurrent:
            return None

        # Get next waiting request'
run M19-bulkhead-timeout-not-removed --replace happysimulator/components/resilience/bulkhead.py '                del self._wait_queue[i]
                self._timed_out_requests += 1' '                self._timed_out_requests += 1'
run M20-bulkhead-response-no-decrement --replace happysimulator/components/resilience/bulkhead.py 'self._active_count = max(0, self._active_count - 1)' 'self._active_count = max(0, self._active_count)'
run M21-preempt-equal-priority --replace happysimulator/components/industrial/preemptible_resource.py 'g.priority > requester_priority]' 'g.priority >= requester_priority]'
run M22-preempt-grant-not-marked-released --replace happysimulator/components/industrial/preemptible_resource.py '        self._preempted = True
        self._released = True' '        self._preempted = True'
run M23-weighted-acquire-off-by-one --replace happysimulator/components/server/concurrency.py 'if self._used_capacity + weight > self._total_capacity:
            return False' 'if self._used_capacity + weight > self._total_capacity + 1:
            return False'
run M24-dynamic-release-no-floor-double --replace happysimulator/components/server/concurrency.py '        self._active = max(0, self._active - 1)

    def has_capacity(self, weight: int = 1) -> bool:
        """Check if a slot is available.

        Args:
            weight: Ignored for DynamicConcurrency.' '        self._active = self._active - 1

    def has_capacity(self, weight: int = 1) -> bool:
        """Check if a slot is available.

        Args:
            weight: Ignored for DynamicConcurrency.'
run M25-threadpool-release-before-work --replace happysimulator/components/server/thread_pool.py '        # Simulate processing
        yield processing_time

        # Release the worker
        self._worker_pool.release()' '        # Release the worker
        self._worker_pool.release()

        # Simulate processing
        yield processing_time'
run M26-resource-try-acquire-off-by-one --replace happysimulator/components/resource.py '        if self._available >= amount:
            self._available -= amount
            self._acquisitions += 1
            self._update_peak_utilization()
            return Grant(self, amount)' '        if self._available + 1 >= amount:
            self._available -= amount
            self._acquisitions += 1
            self._update_peak_utilization()
            return Grant(self, amount)'
run M18b-bulkhead-admit-off-by-one --replace happysimulator/components/resilience/bulkhead.py '        if self._active_count < self._max_concurrent:
            return self._forward_request(event)' '        if self._active_count <= self._max_concurrent:
            return self._forward_request(event)'
