"""C18 — logical clocks respect causality; CRDT replicas converge to the specified value.

Deterministic simulation with fault injection (DESIGN.md section 5, C18).  Three
scenario families, all driven through the repository's own engine over
`simkit.chaosnet` links (keyed delays -> reordering, stragglers; partitions, loss
and pause windows; a harness `DupProxy` duplicates messages):

* ``clocks``  2-5 node entities exchange messages that carry Lamport, vector and
  hybrid-logical timestamps (HLC physical time = `NodeClock` with generated
  `FixedSkew` / `LinearDrift`, including stopped and backwards-running clocks).
  Oracle: the happened-before relation of the recorded history itself (program
  order + send->receive, transitive closure as bitsets):
  a->b => L(a)<L(b), HLC(a)<HLC(b);  VC(a)<VC(b) <=> a->b.
* ``crdt``    2-5 replica entities each hold one GCounter / PNCounter /
  LWWRegister / ORSet, receive generated operations and ship their state to each
  other (to_dict/from_dict round trips, deep copies, live references,
  self-merges, forwarding chains = grouping, duplicates = repetition).
* ``store``   2-5 real `CRDTStore` gossip entities (push-pull gossip over the
  chaos mesh) receiving `Write` events.

CRDT oracle (op-based specification): the harness tracks, per replica, the set of
update operations it has received (directly or transitively through merged
states).  After every operation / merge and at the end: the replica's value equals
the specified value of that operation set (counters = sum inc - sum dec; OR-set
contains x iff some add(x) in the set was not observed by a remove(x) in the set;
LWW = write with the greatest timestamp, ties by node id) and two replicas with
the same operation set are equal.
"""
from __future__ import annotations

import copy

from simkit import repo

repo.activate()

from happysimulator.components.crdt import CRDTStore, GCounter, LWWRegister, ORSet, PNCounter  # noqa: E402
from happysimulator.core.entity import Entity  # noqa: E402
from happysimulator.core.event import Event, ProcessContinuation  # noqa: E402
from happysimulator.core.logical_clocks import (  # noqa: E402
    HLCTimestamp,
    HybridLogicalClock,
    LamportClock,
    VectorClock,
)
from happysimulator.core.node_clock import FixedSkew, LinearDrift, NodeClock  # noqa: E402
from happysimulator.core.simulation import Simulation  # noqa: E402
from happysimulator.core.temporal import Duration, Instant  # noqa: E402

from simkit.chaosnet import FaultDriver, build_mesh, gen_faults, gen_latency_profile, last_fault_end  # noqa: E402
from simkit.rng import seed_globals, unit  # noqa: E402
from simkit.world import InvalidScenario, Monitor, Violation, result, run_sim  # noqa: E402

PROPERTY = "C18"
RUNS = {"quick": 4000, "thorough": 3_000_000}
WALL = {"quick": 50, "thorough": 1500}
BATCH = {"quick": 100, "thorough": 400}
RULE = (
    "each case is one generated history run on the real engine over a chaos mesh (keyed per-message delays, "
    "duplicating proxy, partition/loss/pause windows): class 'clocks' = 2-5 nodes x <=40 scripted local/send events "
    "(+forwarding chains) with Lamport/vector/HLC stamps and generated clock skew/drift; class 'crdt/*' = 2-5 replicas "
    "of one CRDT type with generated updates and state shipments (dict round trip / copy / live / self-merge / chains) "
    "followed by an all-to-all sync; class 'store/*' = 2-5 CRDTStore gossip entities with Write events (half of them "
    "'settle' runs that continue 30 gossip rounds after the last write, 60% of those with symmetric value-tying workloads). "
    "non-trivial = (clocks) >=1 message received and >=1 concurrent event pair; (crdt/store) >=2 replicas updated and "
    ">=1 remote state merged; distinct = distinct engine delivery digests"
)
STATE_MEASURE = ("distinct (class, variant, nodes, HLC receive branches hit, dup seen, reorder seen, vias used, "
                 "converged, #distinct op-sets bucket) tuples")
REAL = [
    "happysimulator.core.logical_clocks.LamportClock/VectorClock/HybridLogicalClock/HLCTimestamp",
    "happysimulator.core.node_clock.NodeClock/FixedSkew/LinearDrift",
    "happysimulator.components.crdt.GCounter/PNCounter/LWWRegister/ORSet",
    "happysimulator.components.crdt.CRDTStore (gossip tick/push/response, _merge_remote_state)",
    "happysimulator.components.network.Network/NetworkLink", "happysimulator.core.simulation.Simulation (instrumented loop)",
]
STUBS = [
    "ClockNode / ReplicaNode script entities (harness)", "DupProxy duplicating link egress (harness)",
    "simkit.chaosnet.KeyedLatency / FaultDriver", "RecStore = CRDTStore subclass that only logs which op-set each "
    "serialised state carries (real behaviour via super())", "happened-before bitset closure and op-based CRDT "
    "specifications (oracles)",
]
ASSUMPTIONS = [
    "replica / node ids are unique (precondition of every CRDT); LWW writes never reuse an identical (physical, logical, "
    "node) timestamp for two different values (unspecified case)",
    "the timestamp of a receive event is the clock state right after receive(): LamportClock.time, a copy of the "
    "VectorClock, and for HLC either the anchored `_last` field or the next now() (both modes are generated)",
    "'observed by a remove' = the add is in the set of updates the removing replica had received when it removed",
    "safety (same updates => equal and = specification) is judged everywhere; convergence is judged only as bounded "
    "liveness in 'settle' store runs: SETTLE_ROUNDS (30) gossip rounds after the last write/fault, one gossip interval "
    "for all stores, delays bounded (no straggler profile), loss/partition windows over -> every store must hold "
    "every update (the chance that two of <=5 stores never exchange directly in 30 push-pull rounds is < 1e-7); with "
    "asymmetric peer lists (strongly connected directed gossip graph, out-degree <= 2) the bound is 60 rounds",
    "LWW writes may repeat values (value domain a/b/c or one shared value); writes are identified by their timestamp",
    "two objects may carry the same node id only in the sound ways: a snapshot (dict round trip / deep copy) of a replica "
    "that is later caught up by / merged into the live object, a caught-up snapshot promoted to be the live object "
    "(counters, LWW), and a replica restarted empty under its old id (counters, LWW) that issues no new update before it "
    "has re-learned all its own former updates; restoring an old snapshot or restarting and updating at once would "
    "reuse counter slots / OR-set tags, which is inherent to state-based CRDTs and not judged",
    "CRDTStore LWW registers are written through get_or_create(key).set(value, ts) because the store's Write path "
    "cannot pass a timestamp (store Write + default LWW factory raises TypeError; outside the statement, see report)",
]
EXPECTED_PROBES = [
    "probe.hlc_branch_tie3", "probe.hlc_branch_local", "probe.hlc_branch_remote", "probe.hlc_branch_reset",
    "probe.dup_delivered", "probe.reordered_on_link", "probe.concurrent_pair", "probe.transitive_pair",
    "probe.crdt_converged_all", "probe.self_merge", "probe.chain_forward", "probe.lww_tie_physical_logical",
    "probe.orset_concurrent_add_remove", "probe.store_key_learned_by_gossip", "probe.store_converged_all",
    "probe.orset_nonstring_elements_through_dict", "probe.store_learned_key_then_local_update",
    "probe.orset_stale_state_merged_after_remove", "probe.orset_add_wins_over_concurrent_remove",
    "probe.orset_tombstones_through_dict", "probe.store_orset_stale_state_merged_after_remove",
    "probe.store_orset_add_wins_over_concurrent_remove", "probe.lww_rewrite_same_value_newer_timestamp",
    "probe.store_settle_run_converged", "probe.store_symmetric_value_tie",
    "probe.store_asymmetric_peers_settle_converged", "probe.store_push_from_non_peer_merged",
    "probe.store_kept_handle_written_after_gossip_merge", "probe.lww_none_or_falsy_value_written",
    "probe.orset_falsy_elements",
    "probe.twin_snapshot_caught_up_with_newer_state", "probe.twin_stale_snapshot_merged_into_live",
    "probe.twin_snapshot_promoted", "probe.twin_restarted_replica_relearns_own_updates",
    "probe.twin_update_skipped_while_recovering", "probe.reload_then_local_update",
    "fault.partition", "fault.loss", "fault.pause",
]
SHRINK_SKIP = ("klass", "crdt", "variant", "n_nodes")
SELFTEST_RUNS = 8

SETTLE_ROUNDS_ASYM = 60   # directed graphs with out-degree <= 2: each of <= 4 hops succeeds with p >= 1/2 per round
SETTLE_ROUNDS = 30   # P(two of <=5 stores never exchange directly in 30 push-pull rounds) <= (9/16)^30 ~ 3e-8

CRDT_CLASSES = {"gcounter": GCounter, "pncounter": PNCounter, "lww": LWWRegister, "orset": ORSet}


# --------------------------------------------------------------------------
# generators
# --------------------------------------------------------------------------

def _gen_clock_models(rng, n):
    def one():
        k = rng.choice(["none", "skew", "skew", "drift", "drift", "odd"])
        if k == "none":
            return {"kind": "none"}
        if k == "skew":
            return {"kind": "skew", "offset_s": rng.choice([-1, 1]) * rng.choice([1e-6, 0.001, 0.02, 0.5, 3.0])}
        if k == "drift":
            return {"kind": "drift", "ppm": rng.choice([-1, 1]) * rng.choice([10, 1000, 50_000, 400_000])}
        return {"kind": "drift", "ppm": rng.choice([-1_000_000, -1_500_000, 2_000_000])}  # stopped / backwards / 3x

    if rng.random() < 0.35:
        m = one()
        return [dict(m) for _ in range(n)]
    return [one() for _ in range(n)]


def _gen_net(rng):
    scale = rng.choice([0.0, 0.0, 0.002, 0.01, 0.01])
    prof = gen_latency_profile(rng, scale) if scale > 0 else {"base": 0.0, "jitter": 0.0}
    return {"profile": prof, "dup_p": rng.choice([0.0, 0.0, 0.15, 0.4]), "dup_delay": rng.choice([0.0, 0.003, 0.05])}


def _gen_times(rng, count, horizon):
    step = rng.choice([0.001, 0.005, 0.0005])
    grid = max(2, int(horizon / step))
    if rng.random() < 0.3:
        grid = max(2, grid // 8)  # many coincident instants
    return sorted(round(rng.randrange(0, grid) * step, 6) for _ in range(count))


def _gen_faults(rng, n, horizon):
    if rng.random() < 0.5:
        return []
    return gen_faults(rng, n, horizon, kinds=("partition", "loss", "pause"), max_faults=3, min_len=0.005)


def gen_clocks(rng):
    n = rng.randint(2, 5)
    horizon = rng.choice([0.05, 0.2])
    ops = []
    for t in _gen_times(rng, rng.randint(4, 40), horizon):
        node = rng.randrange(n)
        if rng.random() < 0.4:
            ops.append({"t": t, "node": node, "kind": "local"})
        else:
            to = rng.choice([j for j in range(n) if j != node])
            chain = [rng.randrange(n) for _ in range(rng.choice([0, 0, 1, 2, 3]))]
            ops.append({"t": t, "node": node, "kind": "send", "to": to, "chain": chain})
    return {"klass": "clocks", "n_nodes": n, "seed": rng.getrandbits(48), "net": _gen_net(rng),
            "faults": _gen_faults(rng, n, horizon), "clock_models": _gen_clock_models(rng, n),
            "vc_ids": rng.choice(["full", "full", "self", "partial"]), "hlc_read": rng.choice(["last", "now"]),
            "hlc_wire": rng.choice(["obj", "dict"]), "ops": ops}


VIAS = ["dict", "dict", "dict2", "copy", "live"]


def gen_crdt(rng):
    n = rng.randint(2, 5)
    kind = rng.choice(["gcounter", "pncounter", "lww", "orset", "orset", "orset"])
    horizon = rng.choice([0.05, 0.2])
    variant = "default"
    sc = {"klass": "crdt", "crdt": kind, "n_nodes": n, "seed": rng.getrandbits(48), "net": _gen_net(rng),
          "faults": _gen_faults(rng, n, horizon), "clock_models": _gen_clock_models(rng, n)}
    if kind == "orset":
        variant = rng.choice(["full", "full", "full", "full", "full", "add-only", "private-remove"])
        sc["elem"] = rng.choice(["str", "str", "int", "mixed", "falsy"])
    if kind == "lww":
        variant = rng.choice(["hlc", "manual", "manual"])
        sc["lww_values"] = rng.choice(["unique", "repeat", "repeat"])
    sc["variant"] = variant
    ops = []
    used_ts = set()
    priv = 0
    for t in _gen_times(rng, rng.randint(4, 40), horizon):
        node = rng.randrange(n)
        r = rng.random()
        if r < 0.45:
            to = rng.randrange(n)  # to == node -> self shipment (idempotence through the wire)
            ops.append({"t": t, "node": node, "kind": "send", "to": to, "via": rng.choice(VIAS),
                        "chain": [rng.randrange(n) for _ in range(rng.choice([0, 0, 1, 2]))]})
            continue
        if r < 0.52:
            ops.append({"t": t, "node": node, "kind": "selfmerge", "via": rng.choice(["live", "dict", "copy"])})
            continue
        if r < 0.70:
            k2 = rng.choice(["snap", "snap", "snapsync", "snapsync", "snapsync", "swap", "restart", "reload", "reload",
                             "reload"])
            ops.append({"t": t, "node": node, "kind": k2, "via": rng.choice(["dict", "copy", "live"]),
                        "dir": rng.choice(["catchup", "catchup", "into-live"])})
            continue
        if kind == "gcounter":
            ops.append({"t": t, "node": node, "kind": "inc", "n": rng.choice([1, 1, 2, 5, 100])})
        elif kind == "pncounter":
            ops.append({"t": t, "node": node, "kind": rng.choice(["inc", "dec"]), "n": rng.choice([1, 1, 2, 5, 100])})
        elif kind == "lww":
            op = {"t": t, "node": node, "kind": "set", "val": rng.choice(LWW_VALUES)}
            if variant == "manual":
                p, lg = rng.randrange(0, 4), rng.randrange(0, 3)
                if (node, p, lg) in used_ts:
                    continue
                used_ts.add((node, p, lg))
                op["ts"] = [p, lg]
            ops.append(op)
        else:
            if variant == "add-only":
                ops.append({"t": t, "node": node, "kind": "add", "x": rng.randrange(4)})
            elif variant == "private-remove":
                if rng.random() < 0.5:
                    ops.append({"t": t, "node": node, "kind": "add", "x": rng.randrange(4)})
                else:
                    ops.append({"t": t, "node": node, "kind": "addrem", "x": f"p{priv}"})
                    priv += 1
            else:
                ops.append({"t": t, "node": node, "kind": rng.choice(["add", "add", "remove", "remove", "addrem"]),
                            "x": rng.randrange(rng.choice([2, 4]))})
    sc["ops"] = ops
    sc["sync_rounds"] = rng.choice([0, 1, 1, 2])
    sc["sync_via"] = rng.choice(VIAS)
    return sc


def gen_store(rng):
    n = rng.randint(2, 5)
    kind = rng.choice(["gcounter", "pncounter", "lww", "orset", "orset"])
    horizon = rng.choice([0.6, 1.5])
    variant = "default"
    if kind == "orset":
        variant = rng.choice(["full", "full", "full", "add-only"])
    keys = [f"k{i}" for i in range(rng.randint(1, 3))]
    settle = rng.random() < 0.5
    net = _gen_net(rng)
    while settle and "straggler" in net["profile"]:       # bounded delays for the convergence clause
        net = _gen_net(rng)
    iv = rng.choice([0.05, 0.1])
    sc = {"klass": "store", "crdt": kind, "variant": variant, "n_nodes": n, "seed": rng.getrandbits(48),
          "elem": rng.choice(["str", "int", "falsy-store"]) if kind == "orset" else "str",
          "handles": rng.random() < 0.35,
          "net": net, "clock_models": _gen_clock_models(rng, n),
          "keys": keys, "precreate": rng.random() < 0.5, "settle": settle,
          "lww_values": rng.choice(["unique", "repeat"]),
          "gossip": [iv] * n if settle else [rng.choice([0.05, 0.1, 0.25]) for _ in range(n)], "horizon": horizon}
    if n >= 3 and rng.random() < 0.4:
        # asymmetric peer lists (add_peers is per store): a directed ring in a random order keeps the gossip graph
        # strongly connected; up to one extra outgoing edge per store (hub / back-edge / late-joiner shapes)
        order = list(range(n))
        rng.shuffle(order)
        peers = [[] for _ in range(n)]
        for i, a in enumerate(order):
            peers[a].append(order[(i + 1) % n])
        for a in range(n):
            if rng.random() < 0.35:
                b = rng.choice([x for x in range(n) if x != a and x not in peers[a]])
                peers[a].append(b)
        sc["peers"] = peers
    sc["net"]["dup_p"] = min(sc["net"]["dup_p"], 0.15)
    faults = _gen_faults(rng, n, horizon * 0.6)
    sc["faults"] = [f for f in faults if f["kind"] != "pause"]
    ops = []
    sym = settle and rng.random() < 0.6
    sc["workload"] = "symmetric" if sym else "random"
    if sym:
        # every store performs value-equivalent updates before the first gossip tick: the resolved values tie
        # while the underlying CRDT states differ (own slots / own tags / own timestamps)
        sc["lww_values"] = "repeat"
        for key in keys:
            v = rng.choice([1, 2, 5])
            x = rng.randrange(3)
            for node in range(n):
                t = lambda: round(0.001 + rng.randrange(0, 60) * iv * 0.01 + 0.000123, 6)  # noqa: E731
                if kind == "gcounter":
                    ops.append({"t": t(), "node": node, "key": key, "kind": "inc", "n": v})
                elif kind == "pncounter":
                    d = rng.choice([0, 0, 1, 3])
                    ops.append({"t": t(), "node": node, "key": key, "kind": "inc", "n": v + d})
                    if d:
                        ops.append({"t": t(), "node": node, "key": key, "kind": "dec", "n": d})
                elif kind == "lww":
                    ops.append({"t": t(), "node": node, "key": key, "kind": "set", "val": "same"})
                else:
                    ops.append({"t": t(), "node": node, "key": key, "kind": "add", "x": x})
        ops.sort(key=lambda o: o["t"])
        sc["faults"] = []
    else:
        for t in _gen_times(rng, rng.randint(3, 30), horizon * 0.6):
            node = rng.randrange(n)
            op = {"t": round(t + 0.000123, 6), "node": node, "key": rng.choice(keys)}
            if kind == "gcounter":
                op.update(kind="inc", n=rng.choice([1, 2, 5]))
            elif kind == "pncounter":
                op.update(kind=rng.choice(["inc", "dec"]), n=rng.choice([1, 2, 5]))
            elif kind == "lww":
                op.update(kind="set", val=rng.choice(LWW_VALUES))
            else:
                op.update(kind="add" if variant == "add-only" else rng.choice(["add", "add", "remove", "remove"]),
                          x=rng.randrange(rng.choice([2, 3])))
            ops.append(op)
    sc["ops"] = ops
    return sc


def gen(rng, tier):
    r = rng.random()
    if r < 0.40:
        return gen_clocks(rng)
    if r < 0.85:
        return gen_crdt(rng)
    return gen_store(rng)


# --------------------------------------------------------------------------
# world building
# --------------------------------------------------------------------------

class DupProxy(Entity):
    """Sits between a link and its destination; forwards every message and, for a keyed
    fraction of them, one or two later copies (duplication is allowed by the statement)."""

    def __init__(self, name, dest, seed, p, delay_s, stats):
        super().__init__(name)
        self.dest, self.seed, self.p, self.delay_s, self.stats = dest, seed, p, delay_s, stats
        self.k = 0

    def _copy(self, ev, at):
        return Event(time=at, event_type=ev.event_type, target=self.dest, daemon=ev.daemon, context=ev.context.copy())

    def handle_event(self, ev):
        k = self.k
        self.k += 1
        out = [self._copy(ev, self.now)]
        u = unit(self.seed, self.name, k)
        if u < self.p:
            d = self.delay_s * (0.1 + 2.0 * unit(self.seed, self.name, k, "d"))
            out.append(self._copy(ev, self.now + Duration(int(d * 1e9))))
            self.stats["dups"] += 1
            if u < self.p * 0.25:
                out.append(self._copy(ev, self.now + Duration(int(d * 3e9))))
                self.stats["dups"] += 1
        return out


def _clock_model(m):
    k = m.get("kind", "none")
    if k == "none":
        return None
    if k == "skew":
        return FixedSkew(Duration(int(m["offset_s"] * 1e9)))
    if k == "drift":
        return LinearDrift(rate_ppm=m["ppm"])
    raise InvalidScenario(f"clock model {k}")


def _require(sc, *keys):
    for k in keys:
        if k not in sc:
            raise InvalidScenario(f"missing {k}")


class World:
    """Mesh + proxies + fault driver around a list of node entities."""

    def __init__(self, sc, nodes, end_time=None):
        self.sc = sc
        self.nodes = nodes
        net = sc.get("net") or {}
        prof = net.get("profile") or {"base": 0.0, "jitter": 0.0}
        self.net, self.links = build_mesh("net", nodes, sc["seed"], prof)
        self.stats = {"dups": 0}
        self.proxies = []
        p = float(net.get("dup_p", 0.0))
        if p > 0:
            for (a, b), link in self.links.items():
                px = DupProxy(f"dup:{a}->{b}", link.egress, sc["seed"], p, float(net.get("dup_delay", 0.0)), self.stats)
                link.egress = px
                self.proxies.append(px)
        self.fd = FaultDriver(self.net, nodes, self.links, list(sc.get("faults") or []))
        ents = list(nodes) + [self.net] + list(self.links.values()) + self.proxies
        self.sim = Simulation(entities=ents, end_time=end_time)
        evs = self.fd.events()
        if evs:
            self.sim.schedule(evs)

    def latency_bound(self):
        p = (self.sc.get("net") or {}).get("profile") or {}
        lat = (p.get("base", 0.0) + p.get("jitter", 0.0) + 1.5 * p.get("straggler", 0.0)) * p.get("slow_mult", 1.0)
        return lat + 7.0 * float((self.sc.get("net") or {}).get("dup_delay", 0.0)) + 1e-4

    def fault_counters(self):
        c = {k: v for k, v in self.fd.counters().items()}
        c["fault.duplicated_msgs"] = self.stats["dups"]
        return c


def _op_event(node, op, etype="op"):
    if not isinstance(op.get("t"), (int, float)) or op["t"] < 0:
        raise InvalidScenario("op time")
    return Event(time=Instant.from_seconds(float(op["t"])), event_type=etype, target=node, context={"metadata": {"op": op}})


# --------------------------------------------------------------------------
# class "clocks"
# --------------------------------------------------------------------------

class ClockNode(Entity):
    def __init__(self, name, idx, cw):
        super().__init__(name)
        self.idx, self.cw = idx, cw

    def set_clock(self, clock):
        super().set_clock(clock)
        self.cw.nclock[self.idx].set_clock(clock)

    def handle_event(self, ev):
        md = ev.context["metadata"]
        if ev.event_type == "op":
            op = md["op"]
            if op.get("kind") == "local":
                self.cw.local(self)
                return None
            return self.cw.send(self, op.get("to", 0), list(op.get("chain") or []))
        if ev.event_type == "msg":
            return self.cw.receive(self, md)
        return None


class ClockWorld:
    def __init__(self, sc):
        n = sc["n_nodes"]
        names = [f"n{i}" for i in range(n)]
        self.sc = sc
        self.names = names
        models = sc.get("clock_models") or []
        self.nclock = [NodeClock(_clock_model(models[i]) if i < len(models) else None) for i in range(n)]
        self.lam = [LamportClock() for _ in range(n)]
        ids_mode = sc.get("vc_ids", "full")
        self.vc = []
        for i in range(n):
            ids = names if ids_mode == "full" else ([names[i]] if ids_mode == "self" else names[: max(1, n // 2)])
            self.vc.append(VectorClock(names[i], list(ids)))
        self.hlc = [HybridLogicalClock(names[i], physical_clock=self.nclock[i]) for i in range(n)]
        self.nodes = [ClockNode(names[i], i, self) for i in range(n)]
        self.rec = []          # events in real-time (= a topological) order
        self.last_h = [None] * n
        self.probes = {"tie3": 0, "local": 0, "remote": 0, "reset": 0, "dup": 0, "reorder": 0}
        self.recv_count = {}   # send id -> receptions
        self.link_last_sid = {}
        self.world = None

    def _record(self, node, kind, hts, send=None):
        i = node.idx
        e = {"id": len(self.rec), "node": i, "kind": kind, "L": self.lam[i].time,
             "V": self.vc[i].snapshot(), "Vobj": copy.deepcopy(self.vc[i]), "H": hts, "send": send}
        self.rec.append(e)
        self.last_h[i] = hts
        return e

    def local(self, node):
        i = node.idx
        self.lam[i].tick()
        self.vc[i].tick()
        self._record(node, "local", self.hlc[i].now())

    def send(self, node, to, chain):
        i = node.idx
        n = len(self.nodes)
        if not (isinstance(to, int) and 0 <= to < n) or to == i:
            return None
        lts = self.lam[i].send()
        vts = self.vc[i].send()
        hts = self.hlc[i].send()
        e = self._record(node, "send", hts)
        if lts != e["L"] or vts != e["V"]:
            raise Violation("C18/send-returns-own-timestamp/LogicalClocks/returned-differs-from-state",
                            f"send() returned {lts}/{vts} but the clock holds {e['L']}/{e['V']}")
        wire = hts.to_dict() if self.sc.get("hlc_wire") == "dict" else hts
        return [self.world.net.send(node, self.nodes[to], "msg",
                                    payload={"L": lts, "V": vts, "H": wire, "sid": e["id"], "chain": chain})]

    def receive(self, node, md):
        i = node.idx
        remote = md["H"]
        if isinstance(remote, dict):
            remote = HLCTimestamp.from_dict(remote)
        # which branch of HLC.receive will run (probe only; computed from public values)
        pt = self.nclock[i].now.nanoseconds
        last = self.last_h[i]
        lp = last.physical_ns if last is not None else 0
        mx = max(pt, lp, remote.physical_ns)
        br = ("tie3" if mx == lp == remote.physical_ns else "local" if mx == lp
              else "remote" if mx == remote.physical_ns else "reset")
        self.probes[br] += 1
        sid = md["sid"]
        self.recv_count[sid] = self.recv_count.get(sid, 0) + 1
        if self.recv_count[sid] > 1:
            self.probes["dup"] += 1
        lk = (md.get("source"), i)
        if self.link_last_sid.get(lk, -1) > sid:
            self.probes["reorder"] += 1
        self.link_last_sid[lk] = max(self.link_last_sid.get(lk, -1), sid)

        self.lam[i].receive(md["L"])
        self.vc[i].receive(md["V"])
        self.hlc[i].receive(remote)
        hts = self.hlc[i]._last if self.sc.get("hlc_read", "last") == "last" else self.hlc[i].now()
        self._record(node, "recv", hts, send=sid)
        chain = list(md.get("chain") or [])
        if chain:
            return self.send(node, chain[0], chain[1:])
        return None


def _vc_lt(a, b):
    le = True
    lt = False
    for k in a.keys() | b.keys():
        x, y = a.get(k, 0), b.get(k, 0)
        if x > y:
            return False
        if x < y:
            lt = True
    return le and lt


def check_clock_history(rec):
    """Returns (sig, msg, stats)."""
    n = len(rec)
    anc = [0] * n
    last_on = {}
    direct = []
    for e in rec:
        a = 0
        p = last_on.get(e["node"])
        if p is not None:
            a |= anc[p] | (1 << p)
            direct.append((p, e["id"], "program-order"))
        if e["send"] is not None:
            s = e["send"]
            a |= anc[s] | (1 << s)
            direct.append((s, e["id"], "message"))
        anc[e["id"]] = a
        last_on[e["node"]] = e["id"]

    def judge(x, y, edge):
        ea, eb = rec[x], rec[y]
        where = f"{edge} pair: event {x} ({ea['kind']}@n{ea['node']}) -> event {y} ({eb['kind']}@n{eb['node']})"
        if not ea["L"] < eb["L"]:
            return f"C18/lamport-hb/LamportClock/{edge}", f"{where} but L={ea['L']} !< {eb['L']}"
        if not ea["H"] < eb["H"]:
            return f"C18/hlc-hb/HybridLogicalClock/{edge}", f"{where} but HLC={ea['H']} !< {eb['H']}"
        if not _vc_lt(ea["V"], eb["V"]):
            return f"C18/vector-hb/VectorClock/{edge}-not-ordered", f"{where} but VC={ea['V']} !< {eb['V']}"
        if (edge != "transitive" or (x + y) % 3 == 0) and (
                not ea["Vobj"].happened_before(eb["Vobj"]) or eb["Vobj"].happened_before(ea["Vobj"])
                or ea["Vobj"].is_concurrent(eb["Vobj"])):
            return ("C18/vector-method/VectorClock/happened_before-disagrees-with-components",
                    f"{where}: happened_before()/is_concurrent() disagree with VC={ea['V']} < {eb['V']}")
        return None

    for x, y, edge in direct:
        r = judge(x, y, edge)
        if r:
            return r[0], r[1], {}
    conc = trans = 0
    direct_set = {(x, y) for x, y, _ in direct}
    for y in range(n):
        ay = anc[y]
        eb = rec[y]
        for x in range(y):
            ea = rec[x]
            if (ay >> x) & 1:
                if (x, y) not in direct_set:
                    trans += 1
                    r = judge(x, y, "transitive")
                    if r:
                        return r[0], r[1], {}
            else:
                conc += 1
                if _vc_lt(ea["V"], eb["V"]) or _vc_lt(eb["V"], ea["V"]):
                    return ("C18/vector-hb-converse/VectorClock/concurrent-events-ordered",
                            f"events {x} (n{ea['node']}) and {y} (n{eb['node']}) are concurrent but VC {ea['V']} vs "
                            f"{eb['V']} are ordered", {})
                if (x + y) % 3 == 0 and (ea["Vobj"].happened_before(eb["Vobj"]) or eb["Vobj"].happened_before(ea["Vobj"])
                                         or not ea["Vobj"].is_concurrent(eb["Vobj"])):
                    return ("C18/vector-method/VectorClock/happened_before-disagrees-with-components",
                            f"concurrent events {x},{y}: happened_before()/is_concurrent() claim an order", {})
    return None, "", {"conc": conc, "trans": trans}


def run_clocks(sc):
    _require(sc, "n_nodes", "seed", "ops")
    if not 2 <= sc["n_nodes"] <= 5:
        raise InvalidScenario("n_nodes")
    seed_globals(sc["seed"])
    cw = ClockWorld(sc)
    w = World(sc, cw.nodes)
    cw.world = w
    mon = Monitor(w.sim, cap=20_000)
    evs = []
    for op in sc["ops"]:
        if not (isinstance(op.get("node"), int) and 0 <= op["node"] < sc["n_nodes"]):
            raise InvalidScenario("op node")
        evs.append(_op_event(cw.nodes[op["node"]], op))
    if evs:
        w.sim.schedule(evs)
    status, payload = run_sim(w.sim)
    sig = msg = None
    stats = {}
    if status in ("violation", "exception"):
        sig, msg = payload.sig, payload.msg
        if not sig.startswith("C18/"):
            sig = "C18/" + sig
    elif status == "ok":
        sig, msg, stats = check_clock_history(cw.rec)
    recvs = sum(1 for e in cw.rec if e["kind"] == "recv")
    pr = cw.probes
    counters = {
        "probe.hlc_branch_tie3": int(pr["tie3"] > 0), "probe.hlc_branch_local": int(pr["local"] > 0),
        "probe.hlc_branch_remote": int(pr["remote"] > 0), "probe.hlc_branch_reset": int(pr["reset"] > 0),
        "probe.dup_delivered": int(pr["dup"] > 0), "probe.reordered_on_link": int(pr["reorder"] > 0),
        "probe.concurrent_pair": int(stats.get("conc", 0) > 0), "probe.transitive_pair": int(stats.get("trans", 0) > 0),
        "clock_events": len(cw.rec), "budget_runs": int(status == "budget"),
    }
    counters.update(w.fault_counters())
    state = repr(("clocks", sc["n_nodes"], pr["tie3"] > 0, pr["local"] > 0, pr["remote"] > 0, pr["reset"] > 0,
                  pr["dup"] > 0, pr["reorder"] > 0, sc.get("vc_ids"), sc.get("hlc_read"), min(len(cw.rec) // 20, 5)))
    return result(sig=sig, msg=msg or "", digest=mon.digest, nontrivial=recvs >= 1 and stats.get("conc", 0) >= 1,
                  counters=counters, sim_s=mon.last_time_ns / 1e9, deliveries=mon.seq, klass="clocks", state=state)


# --------------------------------------------------------------------------
# op-based specifications
# --------------------------------------------------------------------------

class Spec:
    """Specification of one replicated object from the set of updates received (bitset of op ids)."""

    def __init__(self, kind):
        self.kind = kind
        self.ops = {}        # op id -> dict
        self.observed = {}   # remove op id -> bitset observed

    def new_id(self):
        return len(self.ops)

    def add_op(self, op):
        oid = len(self.ops)
        self.ops[oid] = op
        return oid

    def value(self, seen):
        k = self.kind
        ids = [i for i in self.ops if (seen >> i) & 1]
        if k in ("gcounter", "pncounter"):
            return sum(self.ops[i]["n"] if self.ops[i]["kind"] == "inc" else -self.ops[i]["n"] for i in ids)
        if k == "lww":
            best = None
            for i in ids:
                ts = self.ops[i]["ts"]
                if best is None or (ts.physical_ns, ts.logical, ts.node_id) > (
                        best["ts"].physical_ns, best["ts"].logical, best["ts"].node_id):
                    best = self.ops[i]
            return (best["val"], best["ts"]) if best else (None, None)
        removes = [i for i in ids if self.ops[i]["kind"] == "remove"]
        out = set()
        for i in ids:
            o = self.ops[i]
            if o["kind"] != "add":
                continue
            if not any(self.ops[r]["x"] == o["x"] and (self.observed[r] >> i) & 1 for r in removes):
                out.add(o["x"])
        return frozenset(out)


def _orset_probes(spec, pre_seen, incoming_seen, pr):
    """Which OR-set situations does this merge exercise (probes only)."""
    if spec.kind != "orset":
        return
    for r, o in spec.ops.items():
        if o["kind"] != "remove" or not (pre_seen >> r) & 1 or (incoming_seen >> r) & 1:
            continue
        # receiver knows remove r, the incoming state does not: does it still carry an add that r observed?
        if any(a["kind"] == "add" and a["x"] == o["x"] and (spec.observed[r] >> i) & 1 and (incoming_seen >> i) & 1
               for i, a in spec.ops.items()):
            pr["stale_state_after_remove"] += 1
            break
    both = pre_seen | incoming_seen
    for r, o in spec.ops.items():
        if o["kind"] == "remove" and (both >> r) & 1 and any(
                a["kind"] == "add" and a["x"] == o["x"] and (both >> i) & 1 and not (spec.observed[r] >> i) & 1
                and not (spec.observed.get(i, 0) >> r) & 1 for i, a in spec.ops.items()):
            pr["add_wins"] += 1
            break


LWW_VALUES = ["a", "b", None, 0, "", False, []]     # caller values incl. None and other falsy ones
FALSY_ELEMS = [None, "", 0, ()]                      # hashable falsy OR-set elements (0/False would be one dict key)


def _elem(sc, x):
    if isinstance(x, str):
        return x
    mode = sc.get("elem", "str")
    if mode == "falsy":
        return FALSY_ELEMS[int(x) % 4]
    if mode == "falsy-store":       # CRDTStore Write treats value None as "no argument"
        return ["", 0, ()][int(x) % 3]
    if mode == "int":
        return int(x)
    if mode == "mixed":
        return int(x) if x % 2 == 0 else str(x - 1)   # 0 and "0", 2 and "2" collide after str()
    return f"e{x}"


def _diagnose(kind, cls, crdt, got, want, spec, seen, where):
    """Signature + message for value != specification."""
    name = cls.__name__
    phase = where.split(":")[0]
    where = phase
    if kind in ("gcounter", "pncounter"):
        d = "value-below-specification" if got < want else "value-above-specification"
        return f"C18/counter-spec/{name}/{d}", f"{where}: value {got} but received updates sum to {want}"
    if kind == "lww":
        gv, gts = got
        wv, wts = want
        known = [o for i, o in spec.ops.items() if (seen >> i) & 1]
        if gts is not None and wts is not None and (gts.physical_ns, gts.logical) == (wts.physical_ns, wts.logical):
            d = "physical-logical-tie-not-broken-by-node-id"
        elif any(o["ts"] == gts and o["val"] == gv for o in known):
            d = "holds-write-with-smaller-timestamp"
        else:
            d = "holds-value-not-among-received-writes"
        return f"C18/lww-spec/{name}/{d}", f"{where}: register holds {gv!r}@{gts} but greatest received write is {wv!r}@{wts}"
    extra, missing = got - want, want - got
    universe = {o["x"] for o in spec.ops.values()}
    if any(x not in universe for x in extra):
        d = "element-changed-type-in-dict-round-trip"
    elif extra:
        d = "removed-element-present-after-" + phase
    else:
        d = "unremoved-add-absent-after-" + phase
    return (f"C18/orset-spec/{name}/{d}",
            f"{where}: set is {sorted(map(repr, got))} but specification gives {sorted(map(repr, want))} "
            f"(extra {sorted(map(repr, extra))}, missing {sorted(map(repr, missing))})")


def _eq_detail(kind, spec, seen):
    """Both replicas already passed value == specification, so their values agree; what differs is internal state."""
    if kind == "orset":
        rm = any(o["kind"] == "remove" for i, o in spec.ops.items() if (seen >> i) & 1)
        return "values-equal-tags-differ-after-remove" if rm else "values-equal-tags-differ-without-remove"
    return "values-equal-states-differ"


def _crdt_value(kind, crdt):
    if kind == "lww":
        return (crdt.value, crdt.timestamp)
    return crdt.value


# --------------------------------------------------------------------------
# class "crdt" (direct replicas)
# --------------------------------------------------------------------------

class ReplicaNode(Entity):
    def __init__(self, name, idx, rw):
        super().__init__(name)
        self.idx, self.rw = idx, rw
        self.crdt = rw.cls(name)
        self.seen = 0
        self.own = 0            # updates issued by this node
        self.need = 0           # after a restart: own updates that must be re-learned before issuing new ones
        self.snap = None        # [object with the same node id, update set it holds]
        self.restarted = False
        self.promoted = False
        self.reloaded = False

    def set_clock(self, clock):
        super().set_clock(clock)
        self.rw.nclock[self.idx].set_clock(clock)

    def handle_event(self, ev):
        md = ev.context["metadata"]
        if ev.event_type == "op":
            return self.rw.do_op(self, md["op"])
        if ev.event_type == "state":
            return self.rw.recv_state(self, md)
        return None


class ReplicaWorld:
    def __init__(self, sc):
        self.sc = sc
        self.kind = sc["crdt"]
        if self.kind not in CRDT_CLASSES:
            raise InvalidScenario("crdt kind")
        self.cls = CRDT_CLASSES[self.kind]
        n = sc["n_nodes"]
        models = sc.get("clock_models") or []
        self.nclock = [NodeClock(_clock_model(models[i]) if i < len(models) else None) for i in range(n)]
        self.nodes = [ReplicaNode(f"r{i}", i, self) for i in range(n)]
        self.hlc = [HybridLogicalClock(f"r{i}", physical_clock=self.nclock[i]) for i in range(n)]
        self.spec = Spec(self.kind)
        self.world = None
        self.probes = {"self_merge": 0, "chain": 0, "merges": 0, "dup": 0, "lww_tie": 0, "conc_add_rm": 0,
                       "checks": 0, "lww_falsy_write": 0, "reload": 0, "update_after_reload": 0, "snap": 0, "restart": 0, "snap_into_live": 0, "snap_catchup_newer": 0, "swap": 0,
                       "update_skipped_while_recovering": 0, "resync_own": 0, "lww_rewrite": 0, "stale_state_after_remove": 0, "add_wins": 0, "tombstone_round_trip": 0}
        self.vias = set()
        self.msg_seq = 0
        self.msg_seen = {}
        self.updated = set()
        self.manual_ts = set()

    # -- oracle ----------------------------------------------------------
    def check(self, node, where, obj=None, seen=None):
        """Judge `obj` (default: the node's live replica) against the specification of the update set `seen`."""
        self.probes["checks"] += 1
        crdt = node.crdt if obj is None else obj
        seen = node.seen if obj is None else seen
        twin = ("/same-node-id-in-two-objects" if (obj is not None or node.restarted or node.promoted)
                else "/replica-reloaded-from-own-dict" if node.reloaded else "")
        label = node.name if obj is None else f"{node.name} (snapshot object)"
        got = _crdt_value(self.kind, crdt)
        want = self.spec.value(seen)
        if got != want:
            sig, msg = _diagnose(self.kind, self.cls, crdt, got, want, self.spec, seen, where)
            raise Violation(sig + twin, f"replica {label} {msg}")
        rt = self.cls.from_dict(crdt.to_dict())
        if not (rt == crdt) or _crdt_value(self.kind, rt) != got:
            d = "state-differs"
            if self.kind == "orset" and {repr(x) for x in got} != {repr(x) for x in rt.value} \
                    and {str(x) for x in got} == {str(x) for x in rt.value}:
                d = "non-string-elements-become-strings"
            raise Violation(f"C18/dict-round-trip/{self.cls.__name__}/{d}",
                            f"replica {label} {where}: from_dict(to_dict()) gives {_crdt_value(self.kind, rt)!r}, "
                            f"replica holds {got!r}")
        for other in self.nodes:
            if (other is not node or obj is not None) and other.seen == seen:
                if not (other.crdt == crdt and crdt == other.crdt):
                    raise Violation(f"C18/same-updates-equal/{self.cls.__name__}/{_eq_detail(self.kind, self.spec, seen)}{twin}",
                                    f"{where}: {label} and {other.name} received the same updates but "
                                    f"{crdt!r} != {other.crdt!r}")

    # -- operations ------------------------------------------------------
    def _other(self, payload):
        via = payload["via"]
        if via in ("dict", "dict2"):
            return self.cls.from_dict(payload["state"]), payload["seen"]
        if via == "copy":
            return payload["state"], payload["seen"]
        src = payload["state"]           # live reference to the sending replica node
        return src.crdt, src.seen

    def _ship(self, node, to, via, chain):
        n = len(self.nodes)
        if not (isinstance(to, int) and 0 <= to < n):
            return None
        self.vias.add(via)
        c = node.crdt
        if via == "dict":
            st = c.to_dict()
        elif via == "dict2":
            st = self.cls.from_dict(self.cls.from_dict(c.to_dict()).to_dict()).to_dict()
        elif via == "copy":
            st = copy.deepcopy(c)
        elif via == "live":
            st = node
        else:
            raise InvalidScenario("via")
        self.msg_seq += 1
        payload = {"via": via, "state": st, "seen": node.seen, "chain": list(chain), "mid": self.msg_seq}
        if to == node.idx:   # shipment to self does not cross the network: merge own serialised state now
            return self.recv_state(node, payload)
        return [self.world.net.send(node, self.nodes[to], "state", payload=payload)]

    def do_op(self, node, op):
        k = op.get("kind")
        c = node.crdt
        sp = self.spec
        if k == "send":
            return self._ship(node, op.get("to", 0), op.get("via", "dict"), op.get("chain") or [])
        if k == "selfmerge":
            via = op.get("via", "live")
            before = _crdt_value(self.kind, c)
            other = c if via == "live" else (copy.deepcopy(c) if via == "copy" else self.cls.from_dict(c.to_dict()))
            c.merge(other)
            self.probes["self_merge"] += 1
            if _crdt_value(self.kind, c) != before:
                raise Violation(f"C18/merge-idempotent/{self.cls.__name__}/self-merge-changes-value",
                                f"{node.name}: merge with own state ({via}) changed value {before!r} -> "
                                f"{_crdt_value(self.kind, c)!r}")
            self.check(node, "selfmerge:")
            return None
        if k == "reload":
            # persist and reload: the replica is rebuilt from its own serialised state (same node id, full state incl.
            # tombstones / tag sequence number) and then CONTINUES local updates on the rebuilt object
            node.crdt = self.cls.from_dict(node.crdt.to_dict())
            node.reloaded = True
            self.probes["reload"] += 1
            self.check(node, "reload:")
            return None
        if k in ("snap", "snapsync", "swap", "restart"):
            return self._twin_op(node, k, op)
        if node.need:
            if (node.seen & node.need) != node.need:
                self.probes["update_skipped_while_recovering"] += 1
                return None     # a restarted replica must first re-learn its own former updates (else slot/tag reuse)
            node.need = 0
        before = node.seen
        if node.reloaded:
            self.probes["update_after_reload"] += 1
        self.updated.add(node.idx)
        if k in ("inc", "dec"):
            n = op.get("n", 1)
            if not isinstance(n, int) or n < 1 or (k == "dec" and self.kind != "pncounter") or self.kind not in (
                    "gcounter", "pncounter"):
                raise InvalidScenario("inc/dec")
            (c.increment if k == "inc" else c.decrement)(n)
            node.seen |= 1 << sp.add_op({"kind": k, "n": n})
        elif k == "set" and self.kind == "lww":
            if self.sc.get("variant") == "manual":
                ts = op.get("ts")
                if not (isinstance(ts, list) and len(ts) == 2) or (node.idx, ts[0], ts[1]) in self.manual_ts:
                    raise InvalidScenario("manual ts")
                self.manual_ts.add((node.idx, ts[0], ts[1]))
                hts = HLCTimestamp(physical_ns=int(ts[0]), logical=int(ts[1]), node_id=node.name)
            else:
                hts = self.hlc[node.idx].now()
            oid = sp.new_id()
            val = op["val"] if self.sc.get("lww_values") == "repeat" and "val" in op else f"v{oid}"
            if val is None or val == "" or (not val and not isinstance(val, str)):
                self.probes["lww_falsy_write"] += 1
            if c.timestamp is not None and c.value == val and hts > c.timestamp:
                self.probes["lww_rewrite"] += 1
            if any((o["ts"].physical_ns, o["ts"].logical) == (hts.physical_ns, hts.logical) and o["ts"].node_id != hts.node_id
                   for o in sp.ops.values()):
                self.probes["lww_tie"] += 1
            c.set(val, hts)
            node.seen |= 1 << sp.add_op({"kind": "set", "val": val, "ts": hts})
        elif k in ("add", "remove", "addrem") and self.kind == "orset":
            x = _elem(self.sc, op.get("x", 0))
            if k in ("add", "addrem"):
                c.add(x)
                sp.observed[sp.new_id()] = node.seen
                node.seen |= 1 << sp.add_op({"kind": "add", "x": x})
            if k in ("remove", "addrem"):
                oid = sp.new_id()
                sp.observed[oid] = node.seen
                if any(o["kind"] == "add" and o["x"] == x and not (node.seen >> i) & 1 for i, o in sp.ops.items()):
                    self.probes["conc_add_rm"] += 1
                c.remove(x)
                node.seen |= 1 << sp.add_op({"kind": "remove", "x": x})
        else:
            raise InvalidScenario(f"op {k} for {self.kind}")
        node.own |= node.seen & ~before
        self.check(node, "local-op:")
        return None

    def _twin_op(self, node, k, op):
        """Schedules in which two objects carry the same node id: snapshots of a replica (dict round trip or deep
        copy) that are later caught up by the live object's newer state (or merged back into it), promotion of a
        caught-up snapshot, and a restart (fresh empty object under the old node id that re-syncs from its peers)."""
        c = node.crdt
        if k == "snap":
            obj = copy.deepcopy(c) if op.get("via") == "copy" else self.cls.from_dict(c.to_dict())
            node.snap = [obj, node.seen]
            self.probes["snap"] += 1
            return None
        if k == "restart":
            if self.kind == "orset":
                return None     # an OR-set replica restarted empty would re-mint old tags (inherent, not judged)
            node.crdt = self.cls(node.name)
            node.need = node.own
            node.seen = 0
            node.snap = None
            node.restarted = True
            self.probes["restart"] += 1
            return None
        if node.snap is None:
            return None
        obj, sseen = node.snap
        if k == "snapsync" and op.get("dir") == "into-live":
            c.merge(obj)
            node.seen |= sseen
            self.probes["snap_into_live"] += 1
            self.check(node, "stale-snapshot-merged:")
            return None
        # catch the snapshot up with the live object's state (directly or through a dict round trip)
        if node.seen & ~sseen:
            self.probes["snap_catchup_newer"] += 1
        obj.merge(c if op.get("via") == "live" else self.cls.from_dict(c.to_dict()))
        node.snap[1] = sseen = sseen | node.seen
        self.check(node, "snapshot-catchup:", obj=obj, seen=sseen)
        if k == "swap" and self.kind != "orset":   # (an OR-set snapshot carries a stale tag sequence number)
            node.crdt, node.seen, node.snap, node.promoted = obj, sseen, None, True
            self.probes["swap"] += 1
            self.check(node, "snapshot-promoted:")
        return None

    def recv_state(self, node, md):
        other, seen = self._other(md)
        mid = md.get("mid")
        key = (mid, node.idx)
        self.msg_seen[key] = self.msg_seen.get(key, 0) + 1
        if self.msg_seen[key] > 1:
            self.probes["dup"] += 1
        _orset_probes(self.spec, node.seen, seen, self.probes)
        if self.kind == "orset" and md["via"] in ("dict", "dict2") and any(
                o["kind"] == "remove" for i, o in self.spec.ops.items() if (seen >> i) & 1):
            self.probes["tombstone_round_trip"] += 1
        if node.need and seen & node.need & ~node.seen:
            self.probes["resync_own"] += 1
        node.crdt.merge(other)
        node.seen |= seen
        self.probes["merges"] += 1
        self.check(node, "merge:")
        chain = list(md.get("chain") or [])
        if chain:
            self.probes["chain"] += 1
            return self._ship(node, chain[0], md["via"], chain[1:])
        return None


def run_crdt(sc):
    _require(sc, "n_nodes", "seed", "ops", "crdt")
    if not 2 <= sc["n_nodes"] <= 5:
        raise InvalidScenario("n_nodes")
    seed_globals(sc["seed"])
    rw = ReplicaWorld(sc)
    w = World(sc, rw.nodes)
    rw.world = w
    mon = Monitor(w.sim, cap=30_000)
    evs = []
    tmax = 0.0
    for op in sc["ops"]:
        if not (isinstance(op.get("node"), int) and 0 <= op["node"] < sc["n_nodes"]):
            raise InvalidScenario("op node")
        evs.append(_op_event(rw.nodes[op["node"]], op))
        tmax = max(tmax, float(op["t"]))
    # final anti-entropy: all-to-all shipments after the last fault, spaced by the latency bound
    rounds = int(sc.get("sync_rounds", 0) or 0)
    gap = w.latency_bound()
    t0 = max(tmax, last_fault_end(list(sc.get("faults") or []))) + 4 * gap + 0.001
    open_ended = any(f.get("end") is None for f in (sc.get("faults") or []))
    for r in range(min(rounds, 3)):
        for i in range(sc["n_nodes"]):
            for j in range(sc["n_nodes"]):
                if i != j:
                    op = {"t": t0 + r * (gap + 0.001), "node": i, "kind": "send", "to": j,
                          "via": sc.get("sync_via", "dict"), "chain": []}
                    evs.append(_op_event(rw.nodes[i], op))
    if evs:
        w.sim.schedule(evs)
    status, payload = run_sim(w.sim)
    sig = msg = None
    converged = False
    if status in ("violation", "exception"):
        sig, msg = payload.sig, payload.msg
        if not sig.startswith("C18/"):
            sig = "C18/" + sig
    elif status == "ok":
        try:
            for nd in rw.nodes:
                rw.check(nd, "final:")
        except Violation as v:
            sig, msg = v.sig, v.msg
        full = 0
        for nd in rw.nodes:
            full |= nd.seen
        converged = all(nd.seen == full for nd in rw.nodes)
        if sig is None and rounds >= 1 and not open_ended and not converged and full:
            # harness expectation, not the property: the sync phase must deliver (else the generator is wrong)
            raise RuntimeError("final sync did not deliver every state")
    pr = rw.probes
    counters = {
        "probe.crdt_converged_all": int(converged and len(rw.updated) >= 2),
        "probe.self_merge": int(pr["self_merge"] > 0), "probe.chain_forward": int(pr["chain"] > 0),
        "probe.dup_delivered": int(pr["dup"] > 0), "probe.lww_tie_physical_logical": int(pr["lww_tie"] > 0),
        "probe.orset_concurrent_add_remove": int(pr["conc_add_rm"] > 0),
        "probe.lww_rewrite_same_value_newer_timestamp": int(pr["lww_rewrite"] > 0),
        "probe.lww_none_or_falsy_value_written": int(pr["lww_falsy_write"] > 0),
        "probe.orset_falsy_elements": int(sc["crdt"] == "orset" and sc.get("elem") == "falsy" and pr["merges"] > 0),
        "probe.reload_then_local_update": int(pr["update_after_reload"] > 0),
        "probe.twin_snapshot_caught_up_with_newer_state": int(pr["snap_catchup_newer"] > 0),
        "probe.twin_stale_snapshot_merged_into_live": int(pr["snap_into_live"] > 0),
        "probe.twin_snapshot_promoted": int(pr["swap"] > 0),
        "probe.twin_restarted_replica_relearns_own_updates": int(pr["resync_own"] > 0),
        "probe.twin_update_skipped_while_recovering": int(pr["update_skipped_while_recovering"] > 0),
        "probe.orset_stale_state_merged_after_remove": int(pr["stale_state_after_remove"] > 0),
        "probe.orset_add_wins_over_concurrent_remove": int(pr["add_wins"] > 0),
        "probe.orset_tombstones_through_dict": int(pr["tombstone_round_trip"] > 0),
        "crdt_checks": pr["checks"], "crdt_merges": pr["merges"], "budget_runs": int(status == "budget"),
    }
    for v in sorted(rw.vias):
        counters[f"via.{v}"] = 1
    counters["probe.orset_nonstring_elements_through_dict"] = int(
        sc["crdt"] == "orset" and sc.get("elem", "str") != "str" and bool(rw.vias & {"dict", "dict2"}) and pr["merges"] > 0)
    counters.update(w.fault_counters())
    klass = f"crdt/{sc['crdt']}/{sc.get('variant', 'default')}" + (f"/{sc['elem']}" if sc.get("elem", "str") != "str" else "")
    nsets = len({nd.seen for nd in rw.nodes})
    state = repr((klass, sc["n_nodes"], tuple(sorted(rw.vias)), converged, pr["dup"] > 0, pr["self_merge"] > 0,
                  pr["chain"] > 0, nsets, min(len(rw.spec.ops) // 8, 4)))
    return result(sig=sig, msg=msg or "", digest=mon.digest,
                  nontrivial=len(rw.updated) >= 2 and pr["merges"] >= 1, counters=counters,
                  sim_s=mon.last_time_ns / 1e9, deliveries=mon.seq, klass=klass, state=state)


# --------------------------------------------------------------------------
# class "store" (CRDTStore gossip)
# --------------------------------------------------------------------------

class RecStore(CRDTStore):
    """CRDTStore with two logging overrides: which set of updates does a serialised state carry,
    and which sets has this store merged.  Behaviour is the repository's (super())."""

    def __init__(self, *a, sw=None, idx=0, **kw):
        super().__init__(*a, **kw)
        self.sw = sw
        self.idx = idx
        self.seen = {}       # key -> bitset of op ids
        self.learned = 0

    def set_clock(self, clock):
        super().set_clock(clock)
        self.sw.nclock[self.idx].set_clock(clock)

    def _serialize_state(self):
        st = super()._serialize_state()
        self.sw.sent[id(st)] = (st, dict(self.seen))
        return st

    def _merge_remote_state(self, remote_state):
        had = set(self._crdts)
        super()._merge_remote_state(remote_state)
        info = self.sw.sent.get(id(remote_state))
        if info is None or info[0] is not remote_state:
            raise RuntimeError("harness: merged a state that was not logged at serialisation")
        for key, bits in info[1].items():
            if key in remote_state:
                _orset_probes(self.sw.specs[key], self.seen.get(key, 0), bits, self.sw.pr)
                self.seen[key] = self.seen.get(key, 0) | bits
        self.sw.merges += 1
        if set(self._crdts) - had:
            self.learned += 1
        self.sw.dirty.append(self)


class LwwDriver(Entity):
    """Harness entity performing LWW writes through get_or_create(key).set(value, ts)."""

    def __init__(self, sw):
        super().__init__("lww-driver")
        self.sw = sw

    def handle_event(self, ev):
        if ev.event_type == "direct-write":
            self.sw.direct_write(ev.context["metadata"]["op"])
        else:
            self.sw.lww_write(ev.context["metadata"]["op"])
        return None


class StoreWorld:
    def __init__(self, sc):
        self.sc = sc
        self.kind = sc["crdt"]
        if self.kind not in CRDT_CLASSES:
            raise InvalidScenario("crdt kind")
        self.cls = CRDT_CLASSES[self.kind]
        n = sc["n_nodes"]
        self.keys = [str(k) for k in (sc.get("keys") or [])]
        if not self.keys:
            raise InvalidScenario("keys")
        self.sent = {}
        self.pr = {"stale_state_after_remove": 0, "add_wins": 0}
        self.merges = 0
        self.dirty = []
        self.specs = {k: Spec(self.kind) for k in self.keys}
        self.applied = set()
        self.updated = set()
        self.world = None
        models = sc.get("clock_models") or []
        self.nclock = [NodeClock(_clock_model(models[i]) if i < len(models) else None) for i in range(n)]
        self.hlc = [HybridLogicalClock(f"s{i}", physical_clock=self.nclock[i]) for i in range(n)]
        self.checks = 0
        self.lww_rewrite = 0
        self.lww_falsy = 0
        self.non_peer_push = 0
        self.handles = {}            # (store name, key) -> CRDT object kept by the client since its first use
        self.handle_taken_at = {}    # (store name, key) -> store.stats.keys_merged when the handle was taken
        self.handle_mode = bool(sc.get("handles"))
        self.handle_reused_after_merge = 0

    def build(self):
        sc = self.sc
        n = sc["n_nodes"]
        cls = self.cls
        gossip = list(sc.get("gossip") or [])
        # the Network object is needed by the stores and the stores by the mesh: create stores with a
        # placeholder and patch the public constructor argument afterwards through a tiny indirection
        self.stores = []
        holder = _NetHolder()
        for i in range(n):
            iv = float(gossip[i]) if i < len(gossip) else 0.1
            if iv <= 0:
                raise InvalidScenario("gossip interval")
            self.stores.append(RecStore(f"s{i}", network=holder, crdt_factory=lambda nid, cls=cls: cls(nid),
                                        gossip_interval=iv, sw=self, idx=i))
        self.driver = LwwDriver(self)
        peers = sc.get("peers")
        if peers is None:
            peers = [[j for j in range(n) if j != i] for i in range(n)]
        if len(peers) != n or any(not isinstance(pl, list) or len(set(pl)) != len(pl) or any(
                not isinstance(j, int) or not 0 <= j < n or j == i for j in pl) for i, pl in enumerate(peers)):
            raise InvalidScenario("peers")
        self.peers = peers
        self.asymmetric = any(i not in peers[j] for i in range(n) for j in peers[i])
        rounds = SETTLE_ROUNDS
        if sc.get("settle") and self.asymmetric:
            # information travels along directed edges only: need strong connectivity, small out-degree, more rounds
            if any(not 1 <= len(pl) <= 2 for pl in peers):
                raise InvalidScenario("asymmetric settle runs need out-degree 1..2")
            for src in range(n):
                seen_, todo = {src}, [src]
                while todo:
                    for j in peers[todo.pop()]:
                        if j not in seen_:
                            seen_.add(j)
                            todo.append(j)
                if len(seen_) != n:
                    raise InvalidScenario("gossip graph not strongly connected")
            rounds = SETTLE_ROUNDS_ASYM
        self.rounds = rounds
        horizon = float(sc.get("horizon", 1.0))
        if sc.get("settle"):
            # bounded liveness: SETTLE_ROUNDS gossip rounds after the last write / fault, on bounded delays
            p = (sc.get("net") or {}).get("profile") or {}
            if "straggler" in p or len({float(g) for g in gossip[:n]} | {0.0}) > 2 or len(gossip) < n:
                raise InvalidScenario("settle runs need bounded delays and one gossip interval")
            bound = (p.get("base", 0.0) + p.get("jitter", 0.0)) * p.get("slow_mult", 1.0) \
                + 7.0 * float((sc.get("net") or {}).get("dup_delay", 0.0)) + 1e-4
            last = max([float(o.get("t", 0)) for o in sc.get("ops") or []] + [last_fault_end(list(sc.get("faults") or []))])
            if any(f.get("end") is None for f in sc.get("faults") or []):
                raise InvalidScenario("open-ended fault in a settle run")
            horizon = last + rounds * float(gossip[0]) + 6.0 * bound
        self.horizon = horizon
        end = Instant.from_seconds(horizon)
        w = World(sc, self.stores, end_time=end)
        holder.net = w.net
        self.world = w
        for i, s in enumerate(self.stores):
            s.add_peers([self.stores[j] for j in self.peers[i]])
            if sc.get("precreate"):
                for k in self.keys:
                    s.get_or_create(k)
        return w

    # -- oracle ----------------------------------------------------------
    def check_store(self, s, where):
        for k in self.keys:
            c = s.crdts.get(k)
            seen = s.seen.get(k, 0)
            if c is None:
                if seen:
                    raise Violation(f"C18/store-key-missing/CRDTStore/{where}", f"{s.name} lost key {k}")
                continue
            self.checks += 1
            got = _crdt_value(self.kind, c)
            want = self.specs[k].value(seen)
            if got != want:
                sig, msg = _diagnose(self.kind, self.cls, c, got, want, self.specs[k], seen, where + ":")
                foreign = [o.name for o in self.stores if k in o.crdts and o.crdts[k].node_id != o.name]
                cause = "some-replica-adopted-remote-node-id" if foreign else "all-replicas-own-node-id"
                sig = sig.replace(f"/{self.cls.__name__}/", f"/CRDTStore.{self.cls.__name__}/") + "/" + cause + (
                    "/written-through-kept-handle" if self.handle_mode else "")
                raise Violation(sig, f"store {s.name} key {k} {msg}; stores whose replica of {k} carries another "
                                     f"store's node_id: {foreign}")
            for o in self.stores:
                if o is not s and o.seen.get(k, 0) == seen and k in o.crdts:
                    if not (o.crdts[k] == c):
                        raise Violation(f"C18/same-updates-equal/CRDTStore.{self.cls.__name__}/"
                                        f"{_eq_detail(self.kind, self.specs[k], seen)}",
                                        f"{where}: {s.name} and {o.name} key {k} received the same updates but "
                                        f"{c!r} != {o.crdts[k]!r}")

    def on_event(self, ev, mon):
        t = ev.target
        if isinstance(t, RecStore) and ev.event_type == "Write" and not isinstance(ev, ProcessContinuation):
            md = ev.context["metadata"]
            oid = md.get("opid")
            if oid is not None and oid not in self.applied and not getattr(t, "_crashed", False):
                self.applied.add(oid)
                self._account(t, md["hop"])
                self.check_store(t, "local-op")
        if isinstance(t, RecStore) and ev.event_type == "GossipPush" and not isinstance(ev, ProcessContinuation):
            src = ev.context["metadata"].get("source")
            if src not in [p.name for p in t._peers] and t in self.dirty:
                self.non_peer_push += 1
        while self.dirty:
            self.check_store(self.dirty.pop(), "merge")

    def _account(self, s, op):
        k = op["key"]
        sp = self.specs[k]
        seen = s.seen.get(k, 0)
        kind = op["kind"]
        self.updated.add(s.name)
        if kind in ("inc", "dec"):
            s.seen[k] = seen | 1 << sp.add_op({"kind": kind, "n": op["n"]})
        elif kind == "add":
            sp.observed[sp.new_id()] = seen
            s.seen[k] = seen | 1 << sp.add_op({"kind": "add", "x": op["x"]})
        elif kind == "remove":
            oid = sp.new_id()
            sp.observed[oid] = seen
            s.seen[k] = seen | 1 << sp.add_op({"kind": "remove", "x": op["x"]})

    def handle(self, s, k):
        """The client's CRDT handle for (store, key): in handle mode the object returned by the FIRST get_or_create()
        is kept and used for every later write; otherwise get_or_create() is called each time."""
        if not self.handle_mode:
            return s.get_or_create(k)
        h = self.handles.get((s.name, k))
        if h is None:
            h = self.handles[(s.name, k)] = s.get_or_create(k)
            self.handle_taken_at[(s.name, k)] = s.stats.keys_merged
        elif s.stats.keys_merged > self.handle_taken_at[(s.name, k)]:
            self.handle_reused_after_merge += 1
        return h

    def direct_write(self, op):
        """Counter / OR-set update through the kept handle (instead of a Write event)."""
        s = self.stores[op["node"]]
        if getattr(s, "_crashed", False):
            return
        h = self.handle(s, op["key"])
        k = op["kind"]
        if k == "inc":
            h.increment(op["n"])
        elif k == "dec":
            h.decrement(op["n"])
        elif k == "add":
            h.add(op["x"])
        else:
            h.remove(op["x"])
        self._account(s, op)
        self.check_store(s, "local-op")

    def lww_write(self, op):
        i = op["node"]
        s = self.stores[i]
        if getattr(s, "_crashed", False):
            return
        k = op["key"]
        sp = self.specs[k]
        hts = self.hlc[i].now()
        val = op["val"] if self.sc.get("lww_values") == "repeat" and "val" in op else f"v{k}.{sp.new_id()}"
        if val is None or val == "" or (not val and not isinstance(val, str)):
            self.lww_falsy += 1
        cur = s.crdts.get(k)
        if cur is not None and cur.timestamp is not None and cur.value == val and hts > cur.timestamp:
            self.lww_rewrite += 1
        self.handle(s, k).set(val, hts)
        s.seen[k] = s.seen.get(k, 0) | 1 << sp.add_op({"kind": "set", "val": val, "ts": hts})
        self.updated.add(s.name)
        self.check_store(s, "local-op")


class _NetHolder:
    """Lets the stores be constructed before the mesh that needs them; forwards Network.send."""

    net = None

    def send(self, *a, **kw):
        return self.net.send(*a, **kw)


def run_store(sc):
    _require(sc, "n_nodes", "seed", "ops", "crdt", "keys")
    if not 2 <= sc["n_nodes"] <= 5:
        raise InvalidScenario("n_nodes")
    seed_globals(sc["seed"])
    sw = StoreWorld(sc)
    w = sw.build()
    mon = Monitor(w.sim, cap=60_000, invariant=sw.on_event)
    evs = []
    opname = {"inc": "increment", "dec": "decrement", "add": "add", "remove": "remove"}
    for idx, op in enumerate(sc["ops"]):
        if not (isinstance(op.get("node"), int) and 0 <= op["node"] < sc["n_nodes"]) or op.get("key") not in sw.keys:
            raise InvalidScenario("op node/key")
        k = op.get("kind")
        if k == "set" and sw.kind == "lww":
            evs.append(_op_event(sw.driver, op, "lww-write"))
            continue
        if k not in opname or (k in ("inc", "dec") and sw.kind not in ("gcounter", "pncounter")) \
                or (k == "dec" and sw.kind != "pncounter") or (k in ("add", "remove") and sw.kind != "orset"):
            raise InvalidScenario("op kind")
        hop = dict(op)
        if k in ("inc", "dec"):
            if not isinstance(op.get("n"), int) or op["n"] < 1:
                raise InvalidScenario("n")
            value = op["n"]
        else:
            hop["x"] = value = _elem(sc, int(op.get("x", 0))) if sc.get("elem") in ("int", "falsy-store") \
                else f"e{op.get('x', 0)}"
        if not isinstance(op.get("t"), (int, float)) or op["t"] < 0:
            raise InvalidScenario("t")
        if sw.handle_mode:
            evs.append(_op_event(sw.driver, hop, "direct-write"))
            continue
        evs.append(Event(time=Instant.from_seconds(float(op["t"])), event_type="Write", target=sw.stores[op["node"]],
                         context={"metadata": {"key": op["key"], "value": value, "operation": opname[k],
                                               "opid": idx, "hop": hop}}))
    for s in sw.stores:
        g = s.get_gossip_event()
        if g is not None:
            evs.append(g)
    w.sim.schedule(evs)
    status, payload = run_sim(w.sim)
    sig = msg = None
    converged = False
    if status in ("violation", "exception"):
        sig, msg = payload.sig, payload.msg
        if not sig.startswith("C18/"):
            sig = "C18/" + sig
    elif status == "ok":
        try:
            for s in sw.stores:
                sw.check_store(s, "final")
        except Violation as v:
            sig, msg = v.sig, v.msg
        converged = all(len({s.seen.get(k, 0) for s in sw.stores}) == 1 for k in sw.keys) and any(
            s.seen.get(k, 0) for s in sw.stores for k in sw.keys)
        if sig is None and sc.get("settle") and not converged:
            for k in sw.keys:
                full = 0
                for s in sw.stores:
                    full |= s.seen.get(k, 0)
                lag = [s for s in sw.stores if s.seen.get(k, 0) != full]
                if not lag:
                    continue
                vals = [repr(s.crdts[k].value) if k in s.crdts else None for s in sw.stores]
                tie = len(set(vals)) == 1
                d = ("stores-with-equal-values-but-different-state-never-exchange" if tie
                     else "updates-not-propagated-within-the-settle-rounds")
                sig = f"C18/gossip-convergence/CRDTStore.{sw.cls.__name__}/{d}" + (
                    "/asymmetric-peer-lists" if sw.asymmetric else "")
                msg = (f"key {k}: peers {sw.peers}: {sw.rounds} gossip rounds after the last write/fault (bounded delays, no loss) "
                       f"{[s.name for s in lag]} still miss updates other stores hold; values {vals}, specified value of "
                       f"all updates {sw.specs[k].value(full)!r}")
                break
    counters = {
        "probe.store_key_learned_by_gossip": int(any(s.learned for s in sw.stores)),
        "probe.store_converged_all": int(converged and len(sw.updated) >= 2),
        "store_merges": sw.merges, "store_checks": sw.checks, "budget_runs": int(status == "budget"),
        "store_gossip_msgs": sum(s.stats.gossip_sent for s in sw.stores),
        "probe.store_settle_run_converged": int(bool(sc.get("settle")) and converged),
        "probe.store_asymmetric_peers_settle_converged": int(bool(sc.get("settle")) and sw.asymmetric and converged
                                                             and len(sw.updated) >= 2),
        "probe.store_push_from_non_peer_merged": int(sw.non_peer_push > 0),
        "probe.store_kept_handle_written_after_gossip_merge": int(sw.handle_reused_after_merge > 0),
        "probe.lww_none_or_falsy_value_written": int(sw.lww_falsy > 0),
        "probe.store_symmetric_value_tie": int(sc.get("workload") == "symmetric" and len(sw.updated) >= 2),
        "probe.lww_rewrite_same_value_newer_timestamp": int(sw.lww_rewrite > 0),
        "probe.store_orset_stale_state_merged_after_remove": int(sw.pr["stale_state_after_remove"] > 0),
        "probe.store_orset_add_wins_over_concurrent_remove": int(sw.pr["add_wins"] > 0),
        "probe.store_learned_key_then_local_update": int(any(s.learned and s.name in sw.updated for s in sw.stores)),
        "probe.orset_nonstring_elements_through_dict": int(sc["crdt"] == "orset" and sc.get("elem") == "int" and sw.merges > 0),
    }
    counters.update(w.fault_counters())
    klass = f"store/{sc['crdt']}/{sc.get('variant', 'default')}/{'precreated' if sc.get('precreate') else 'learned'}" + (
        f"/settle-{sc.get('workload', 'random')}" if sc.get("settle") else "") + ("/asym" if sw.asymmetric else "") + ("/handles" if sw.handle_mode else "") + (
        "/int" if sc.get("elem") == "int" else "")
    state = repr((klass, sc["n_nodes"], len(sw.keys), converged, any(s.learned for s in sw.stores),
                  w.stats["dups"] > 0, min(sw.merges // 20, 5)))
    return result(sig=sig, msg=msg or "", digest=mon.digest, nontrivial=len(sw.updated) >= 2 and sw.merges >= 1,
                  counters=counters, sim_s=mon.last_time_ns / 1e9, deliveries=mon.seq, klass=klass, state=state)


def run(sc):
    k = sc.get("klass")
    if k == "clocks":
        return run_clocks(sc)
    if k == "crdt":
        return run_crdt(sc)
    if k == "store":
        return run_store(sc)
    raise InvalidScenario("klass")
