"""C13 — membership: no false deaths on a healthy network, real failures are
detected, DEAD does not revert without a higher incarnation, phi never
decreases while no heartbeat arrives.

Real `MembershipProtocol` nodes (3-9) with their real `PhiAccrualDetector`s run
on the repo engine over a full mesh of real `NetworkLink`s whose per-message
delay is keyed (simkit.chaosnet.KeyedLatency).  Scenario classes (DESIGN.md §5 C13):

  healthy        every message delivered, one-way delay <= 5 % of the probe
                 interval, seeded probe orders, staggered starts          -> accuracy
  healthy-moderate  every message delivered, one-way delay <= 30 % of the probe
                 interval (below the 0.5-interval ack timeout and well inside one
                 round, but the ping+ack round trip may exceed the ack window: suspect /
                 late-ack / refute paths), members started a fraction of a round apart -> accuracy
  failure        same network (5 % bound), one member crashed for good at a generated
                 instant (anywhere: t=0, before first contact, much later) -> completeness
  flap           one member down for a long window, then restarted (its
                 protocol is started again)                               -> DEAD never reverts
  gossip         healthy network; a harness peer (GossipPeer, a registered member that speaks
                 the wire protocol) piggy-backs generated (member, state, incarnation 0..3)
                 triples - stale, reordered, duplicated, about the receiver, about itself -
                 on its pings and acks                                      -> DEAD never reverts
  phi            PhiAccrualDetector alone on a generated heartbeat history -> monotone phi

(Until fix dfba083 the failure class was split into `failure` / `failure-early` to
dodge the recorded finding "crash-detected/…/never-heard-from-victim"; see
checks/c13.fixed.json.  The class name `failure-early` is still accepted in replays.)
"""
from __future__ import annotations

import hashlib
import math

from simkit import repo

repo.activate()

from happysimulator.components.consensus.membership import MemberState, MembershipProtocol  # noqa: E402
from happysimulator.components.consensus.phi_accrual_detector import PhiAccrualDetector  # noqa: E402
from happysimulator.core.entity import Entity  # noqa: E402
from happysimulator.core.event import Event  # noqa: E402
from happysimulator.core.simulation import Simulation  # noqa: E402
from happysimulator.core.temporal import Instant  # noqa: E402

from simkit.chaosnet import FaultDriver, build_mesh  # noqa: E402
from simkit.rng import seed_globals  # noqa: E402
from simkit.world import InvalidScenario, Monitor, Violation, repo_exception_sig, result, run_sim  # noqa: E402

PROPERTY = "C13"
RUNS = {"quick": 1500, "thorough": 600_000}
WALL = {"quick": 55, "thorough": 1500}
BATCH = {"quick": 20, "thorough": 100}
SELFTEST_RUNS = 8
RULE = (
    "each case is a generated cluster of 3-9 real MembershipProtocol nodes (probe interval, suspicion timeout, "
    "indirect count, phi threshold, per-link keyed delays <= 5% of the probe interval, start instants a fraction of a round to a few rounds apart, all "
    "generated) in one of the classes healthy / healthy-moderate (delays <= 30%) / failure / flap / gossip (a harness peer piggy-backs generated updates), or a generated heartbeat history "
    "for a lone PhiAccrualDetector (class phi); non-trivial = every live node completed >= 2 full probe cycles "
    "(cluster classes; for failure classes additionally the crash fired and the detection deadline lay inside the "
    "horizon) or >= 3 heartbeats and >= 20 grid points (phi); distinct = distinct delivery digests (cluster) / "
    "distinct heartbeat histories (phi)"
)
STATE_MEASURE = ("distinct (class, n, per-node multiset of (ALIVE,SUSPECT,DEAD) view counts at the end, whether a live "
                 "member was ever SUSPECT, whether DEAD was learned by gossip) tuples")
REAL = ["happysimulator.components.consensus.membership.MembershipProtocol",
        "happysimulator.components.consensus.phi_accrual_detector.PhiAccrualDetector",
        "happysimulator.components.network.network.Network", "happysimulator.components.network.link.NetworkLink",
        "happysimulator.core.simulation.Simulation (instrumented loop)"]
STUBS = ["GossipPeer (harness member speaking the wire protocol with generated piggy-backed updates)", "simkit.chaosnet.KeyedLatency (LatencyDistribution seam)", "simkit.chaosnet.FaultDriver (crash window via the _crashed flag)",
         "NetRef (late-bound handle so nodes can be constructed before the mesh)"]
ASSUMPTIONS = [
    "'live member' = a node that is not inside a crash window; accuracy (never DEAD) is judged for live members in the "
    "healthy, failure and failure-early classes (the network is healthy in all three); it is not judged in the flap class",
    "'a bound well below the probe interval' is read as one-way delay <= 5 % of the interval in the classes healthy / "
    "failure / flap and <= 30 % in healthy-moderate (still below the 0.5-interval ack timeout, round trip 0.6 < one "
    "round); /repo HEAD is clean of false deaths in healthy-moderate over 3000 sampled runs at 30 % and over 3000 "
    "more at 40 %, so 30 % is not at the edge of what the implementation tolerates; larger fractions are not claimed",
    "a healthy network also answers inside the protocol's own silence budget: round trip (2 x max one-way delay) < direct-ack "
    "window (0.5 probe interval) + suspicion_timeout; with suspicion timeouts of 5-30 % of the probe interval (generated in "
    "40 % of the healthy runs) a round trip longer than that budget is declared DEAD by design on any tree - a configuration "
    "whose failure detector is faster than its network, not a healthy network in the sense of the statement (weaker reading)",
    "a node 'reports' a member through get_member_state() and through the lists alive_members / suspected_members / "
    "dead_members; both are read after every delivery and must agree (a crashed member that stays in alive_members is "
    "still reported ALIVE)",
    "'stops reporting it ALIVE' is satisfied by SUSPECT as well as DEAD (weaker reading)",
    "the statement does not fix the number of probe rounds; the deadline used is derived from the documented mechanism "
    "only: last contact + I + k(threshold) * max(I/2, min_std) + 3 probe intervals, where I = (2N-3) probe intervals + "
    "2 max delays bounds the gap between two contacts and k is the normal quantile of 10^-threshold (any phi-accrual "
    "detector over contact gaps <= I suspects by then); a node that is still ALIVE after that is reported",
    "DEAD->ALIVE is judged twice: against MemberInfo.incarnation (the recorded incarnation of that member at the observer) "
    "and against a harness-side reference that does not trust it: the incarnation at which the observer reported the "
    "member DEAD is that of the 'dead' update the specified rules would have applied from the delivered list (or what "
    "it knew before, for its own timer's verdict), and a later non-DEAD report needs an update or a direct contact "
    "about that member with a strictly higher incarnation delivered to the observer since",
    "gossip class: the harness peer sends only well-formed protocol messages; accuracy (no live member DEAD) is not "
    "judged there because the peer deliberately gossips false verdicts",
    "phi monotonicity is judged with a relative tolerance of 1e-9 (libm erfc/log10 are not guaranteed monotone to the ulp)",
    "a restarted member (flap class) starts its protocol again with start(), as a restarted process would",
]
EXPECTED_PROBES = ["probe.alive_to_dead_directly_by_gossip", "probe.short_suspicion_timeout_with_late_ack", "probe.gossip_stale_alive_after_dead_ignored", "probe.gossip_higher_incarnation_revived_dead",
                   "probe.gossip_dead_verdict_applied", "probe.gossip_update_about_receiver", "probe.gossip_reordered_by_network",
                   "probe.late_ack_revived_member", "probe.live_member_suspected", "probe.suspect_revived", "probe.indirect_path_taken",
                   "probe.victim_declared_dead", "probe.dead_learned_by_gossip", "probe.victim_only_suspect_at_deadline",
                   "probe.never_heard_pair", "probe.dead_member_spoke_again", "probe.phi_reached_inf",
                   "probe.same_target_probed_twice_in_a_row", "probe.suspected_on_missed_ack",
                   "probe.never_heard_member_suspected", "fault.crash", "fault.restart"]
SHRINK_SKIP = ("klass",)

_ST = {MemberState.ALIVE: "A", MemberState.SUSPECT: "S", MemberState.DEAD: "D"}
HEALTHY = ("healthy", "healthy-moderate")
# one-way delay bound as a fraction of the probe interval: 5 % everywhere, except in healthy-moderate, where the
# ping+ack round trip may exceed the 0.5-interval direct-ack window (suspect / late-ack / refute paths) while every
# message is still delivered within a bound below the ack timeout and well inside one probe round
DELAY_FRAC = {"healthy-moderate": 0.30}


# --------------------------------------------------------------------------
# generation
# --------------------------------------------------------------------------

def _kq(threshold: float) -> float:
    """k such that 0.5*erfc(k/sqrt 2) = 10^-threshold (bisection; spec-level, independent of the repo)."""
    lo, hi = 0.0, 40.0
    target = 10.0 ** (-threshold)
    for _ in range(80):
        mid = (lo + hi) / 2
        if 0.5 * math.erfc(mid / math.sqrt(2)) > target:
            lo = mid
        else:
            hi = mid
    return hi


def deadline_rounds(n: int, p: float, thr: float, dmax: float, min_std: float = 0.1) -> float:
    """Upper bound, in seconds after the last contact, by which a phi-accrual detector fed with contact gaps <= I
    must have suspected (see ASSUMPTIONS)."""
    big_i = (2 * n - 3) * p + 2 * dmax
    return big_i + _kq(thr) * max(big_i / 2, min_std) + 3 * p


def gen(rng, tier):
    r = rng.random()
    if r < 0.12:
        return _gen_phi(rng)
    # "failure-early" was split off while the never-heard defect was recorded; since fix dfba083 it is folded back:
    # one failure class, crash instant anywhere (the name is still accepted for the committed replay)
    klass = ("healthy" if r < 0.24 else "healthy-moderate" if r < 0.42 else "failure" if r < 0.72
             else "flap" if r < 0.86 else "gossip")
    n = rng.choice([3, 3, 4, 5, 5, 6, 7, 9]) if klass != "gossip" else rng.choice([3, 3, 4, 5, 6])
    p = rng.choice([0.2, 0.5, 1.0, 1.0, 2.0])
    sus = round(p * rng.choice([0.5, 1, 2, 3, 5, 8]), 4)
    if klass in HEALTHY and rng.random() < 0.4:
        # short suspicion timeouts (down to 5 % of the probe interval) together with delays up to the class bound
        sus = round(p * rng.choice([0.05, 0.08, 0.1, 0.15, 0.2, 0.3]), 4)
    thr = rng.choice([1.0, 2.0, 4.0, 8.0, 8.0, 12.0, 16.0])
    # one-way delay <= 5 % of the probe interval on every link
    total = rng.choice([0.05, 0.05, 0.03, 0.01, 0.002])
    if klass == "healthy-moderate":
        total = rng.choice([0.3, 0.3, 0.28, 0.2, 0.12])
        # the protocol's own silence budget before DEAD is ack window (0.5 p) + suspicion timeout: a healthy network
        # answers inside it (see ASSUMPTIONS)
        total = min(total, round(0.95 * (0.5 + sus / p) / 2, 4))
    split = rng.random()
    prof = {"base": round(p * total * split, 9), "jitter": round(p * total * (1 - split), 9)}
    per_link = {}
    if rng.random() < 0.4:  # a few links at the bound / near zero
        for _ in range(rng.randint(1, 3)):
            a, b = rng.sample(range(n), 2)
            f = rng.choice([0.05, 0.0005]) if klass != "healthy-moderate" else min(rng.choice([0.3, 0.26, 0.12, 0.01]), total)
            per_link[f"m{a}->m{b}"] = {"base": round(p * f, 9), "jitter": 0.0}
    # members start a fraction of a probe round (or a few rounds) apart; 1 in 6 runs starts them all at once
    spread = rng.choice([0.0, 0.2, 0.3, 0.5, 1.0, 3.0])
    starts = [round(rng.uniform(0, p * spread), 6) for _ in range(n)]
    if spread and rng.random() < 0.3:  # evenly staggered boot, 0.05-0.5 rounds apart
        step = rng.choice([0.05, 0.1, 0.2, 0.35, 0.5])
        starts = [round(i * step * p, 6) for i in range(n)]
    sc = {"klass": klass, "seed": rng.getrandbits(32), "net_seed": rng.getrandbits(32), "probe_interval": p,
          "suspicion_timeout": sus, "indirect": rng.choice([0, 1, 2, 3, 3, 4]), "phi_threshold": thr,
          "profile": prof, "per_link": per_link, "starts": starts}
    dl = deadline_rounds(n, p, thr, 0.05 * p)
    if klass in HEALTHY:
        sc["horizon"] = round(p * rng.choice([30, 60, 100, 150]), 4)
    elif klass == "gossip":
        sc["horizon"] = round(max(starts) + p * rng.choice([25, 40, 60]), 4)
        _gen_gossip(rng, sc, n, p)
    elif klass in ("failure", "failure-early"):
        sc["victim"] = rng.randrange(n)
        lo = max(starts) + (2 * n - 1) * p  # by then every node has certainly probed every other node once
        sc["crash_t"] = round(rng.choice([0.0, rng.uniform(0, 2 * p), rng.uniform(0, (2 * n) * p),
                                          lo + rng.uniform(0, 20 * p), lo + rng.uniform(0, 20 * p)]), 6)
        sc["horizon"] = round(sc["crash_t"] + dl + rng.choice([5, 20]) * p, 4)
    else:  # flap
        sc["victim"] = rng.randrange(n)
        lo = max(starts) + (2 * n - 1) * p
        sc["crash_t"] = round(lo + rng.uniform(0, 5 * p), 6)
        down = dl + sus + (2 * n) * p + rng.uniform(0, 10 * p)
        sc["restart_t"] = round(sc["crash_t"] + down, 6)
        sc["horizon"] = round(sc["restart_t"] + (4 * n + 10) * p, 4)
    return sc


def _gen_phi(rng):
    kind = rng.choice(["regular", "jitter", "bursty", "drift", "few"])
    base = rng.choice([0.01, 0.1, 0.5, 1.0, 5.0])
    m = rng.randint(0, 3) if kind == "few" else rng.randint(3, 40)
    gaps = []
    for i in range(m):
        if kind == "regular":
            g = base
        elif kind == "jitter":
            g = base * rng.uniform(0.5, 1.5)
        elif kind == "bursty":
            g = base * rng.choice([0.0, 0.01, 1.0, 1.0, 8.0])
        elif kind == "drift":
            g = base * (1 + 0.2 * i)
        else:
            g = base * rng.uniform(0.1, 3.0)
        gaps.append(round(g, 9))
    return {"klass": "phi", "seed": rng.getrandbits(32), "threshold": rng.choice([1.0, 3.0, 8.0, 16.0]),
            "min_std": rng.choice([0.1, 0.1, 0.01, 1.0]), "max_sample_size": rng.choice([200, 200, 5, 2, 1]),
            "initial_interval": rng.choice([None, base, base * 3]), "t0": round(rng.uniform(0, 100), 6), "gaps": gaps,
            "grid_n": rng.choice([20, 40, 80]), "grid_max_mult": rng.choice([3.0, 30.0, 3000.0])}


# --------------------------------------------------------------------------
# phi class
# --------------------------------------------------------------------------

def run_phi(sc):
    if sc.get("min_std", 0.1) <= 0 or sc.get("max_sample_size", 200) < 1 or sc.get("grid_n", 0) < 2:
        raise InvalidScenario("phi parameters outside the documented domain")
    if any(g < 0 for g in sc["gaps"]):
        raise InvalidScenario("negative gap")
    ii = sc.get("initial_interval")
    try:
        det = PhiAccrualDetector(threshold=sc["threshold"], max_sample_size=sc["max_sample_size"],
                                 min_std=sc["min_std"], initial_interval=ii if ii else None)
        t = sc.get("t0", 0.0)
        hist = hashlib.blake2b(digest_size=12)
        segs = 0
        reached_inf = 0
        max_pts = 0
        scale = max([g for g in sc["gaps"] if g > 0] + [ii or 0.0, sc["min_std"]])
        times = [t]
        for g in sc["gaps"]:
            t = t + g
            times.append(t)
        n_hb = 0
        for idx, hb in enumerate(times):
            det.heartbeat(hb)
            n_hb += 1
            nxt = times[idx + 1] if idx + 1 < len(times) else None
            # increasing grid strictly inside (hb, next heartbeat) — or open-ended after the last one
            span = (nxt - hb) if nxt is not None else scale * sc["grid_max_mult"]
            if span <= 0:
                continue
            pts = []
            k = sc["grid_n"]
            for j in range(k):
                # half linear, half geometric towards the end of the span
                frac = (j + 1) / (k + 1)
                pts.append(hb + span * frac * frac)
            prev = None
            prev_t = None
            for x in pts:
                if nxt is not None and x >= nxt:
                    break
                v = det.phi(x)
                hist.update(repr((idx, x, v)).encode())
                if v != v:
                    return result(sig="C13/phi-monotone/PhiAccrualDetector/nan", msg=f"phi({x}) is NaN after heartbeat #{idx}",
                                  digest=hist.hexdigest(), klass="phi")
                if v == float("inf"):
                    reached_inf = 1
                if prev is not None and v < prev - 1e-9 * max(1.0, abs(prev)):
                    kind = "drops-to-zero" if v == 0.0 else "decreases"
                    return result(sig=f"C13/phi-monotone/PhiAccrualDetector/{kind}",
                                  msg=f"no heartbeat between t={prev_t} and t={x} (last heartbeat #{idx} at {hb}) but phi went {prev} -> {v}",
                                  digest=hist.hexdigest(), klass="phi")
                prev, prev_t = v, x
            segs += 1
            max_pts = max(max_pts, len(pts))
    except Exception as exc:  # public API, documented domain
        sig = repo_exception_sig(exc)
        if sig is None:
            raise
        return result(sig=f"C13/{sig}", msg=repr(exc), klass="phi")
    return result(digest=hist.hexdigest(), nontrivial=n_hb >= 3 and max_pts >= 20, klass="phi",
                  counters={"probe.phi_reached_inf": reached_inf, "phi.segments": segs},
                  state=repr(("phi", min(n_hb, 5), reached_inf, sc["max_sample_size"] < 10)), deliveries=0, sim_s=0.0)


# --------------------------------------------------------------------------
# cluster classes
# --------------------------------------------------------------------------

class NetRef:
    """Late-bound network handle (nodes are constructed before build_mesh creates the Network)."""

    net = None

    def send(self, **kw):
        return self.net.send(**kw)


class GossipPeer(Entity):
    """Harness peer of the gossip class: a registered member of the cluster that speaks the wire protocol
    (well-formed MembershipPing / MembershipAck through the real Network and links) but piggy-backs *generated*
    update lists.  It acks every ping, so it stays alive in everybody's view."""

    def __init__(self, name, network, targets, ack_updates):
        super().__init__(name)
        self._network = network
        self._targets = targets          # name -> entity
        self._ack_updates = ack_updates  # cycled over the acks it sends
        self._acks = 0

    def handle_event(self, event):
        md = event.context.get("metadata", {})
        if event.event_type == "MembershipPing":
            src = md.get("from")
            if src not in self._targets:
                return None
            ups = self._ack_updates[self._acks % len(self._ack_updates)] if self._ack_updates else []
            self._acks += 1
            return [self._network.send(source=self, destination=self._targets[src], event_type="MembershipAck",
                                       payload={"from": self.name, "ack_for": src, "incarnation": 0,
                                                "updates": [dict(u) for u in ups]}, daemon=True)]
        if event.event_type == "gossip.send":
            g = md["g"]
            return [self._network.send(source=self, destination=self._targets[g["to"]], event_type="MembershipPing",
                                       payload={"from": self.name, "incarnation": g.get("inc", 0), "gseq": md.get("k", 0),
                                                "updates": [dict(u) for u in g["updates"]]}, daemon=True)]
        return None


def _gen_updates(rng, names, k):
    out = []
    for _ in range(k):
        out.append({"member": rng.choice(names), "state": rng.choice(["alive", "suspect", "dead", "dead"]),
                    "incarnation": rng.choice([0, 0, 1, 1, 2, 2, 3])})
    return out


def _gen_gossip(rng, sc, n, p):
    """Gossip script: generic random triples plus targeted stale/reordered sequences (dead@d then alive@a, a <= d)."""
    names = [f"m{i}" for i in range(n)] + [f"m{n}", "ghost"]
    t0 = max(sc["starts"]) + 2 * p
    span = sc["horizon"] - t0 - 4 * p
    gossip = []
    for _ in range(rng.randint(3, 12)):
        gossip.append({"t": round(t0 + rng.uniform(0, span), 6), "to": f"m{rng.randrange(n)}",
                       "inc": rng.choice([0, 0, 1, 2]), "updates": _gen_updates(rng, names, rng.randint(1, 4))})
    for _ in range(rng.randint(1, 3)):  # targeted sequences about one member at one observer
        obs = rng.randrange(n)
        mem = rng.choice([x for x in names[:n + 1] if x != f"m{obs}"])
        d = rng.choice([1, 2, 2, 3])
        k = rng.choice([0, 0, 1]) if d > 1 else 0
        seq = []
        if k:
            seq.append([{"member": mem, "state": "alive", "incarnation": k}])
        seq.append([{"member": mem, "state": "dead", "incarnation": d}])
        for _ in range(rng.randint(1, 3)):
            a = rng.choice([x for x in range(0, d + 1)] + [d + 1])
            st = rng.choice(["alive", "alive", "suspect", "dead"])
            seq.append([{"member": mem, "state": st, "incarnation": a}] + _gen_updates(rng, names, rng.randint(0, 1)))
        if rng.random() < 0.3:
            seq.append(list(seq[1]))  # duplicate of the verdict
        t = t0 + rng.uniform(0, span * 0.5)
        for ups in seq:
            gossip.append({"t": round(t, 6), "to": f"m{obs}", "inc": 0, "updates": ups})
            t += rng.choice([0.01 * p, 0.5 * p, 2 * p])  # close together (may be reordered by the links) or apart
    gossip.sort(key=lambda g: g["t"])
    sc["gossip"] = gossip
    sc["ack_updates"] = [_gen_updates(rng, names, rng.randint(0, 2)) for _ in range(rng.randint(0, 4))]


def _validate(sc):
    n = len(sc.get("starts", []))  # cluster size = number of start instants (lets the shrinker drop nodes)
    if not 3 <= n <= 9:
        raise InvalidScenario("n")
    p = sc.get("probe_interval", 0)
    # documented ranges (defaults 1.0 / 5.0 / 3 / 8.0; the repo's tests use 0.5 / 3.0 / 4.0): stay within a decade of them
    if not 0.05 <= p <= 10.0 or not 0.05 * p * (1 - 1e-9) <= sc.get("suspicion_timeout", 0) <= 100 * p \
            or not 0.5 <= sc.get("phi_threshold", 0) <= 20.0:
        raise InvalidScenario("parameters outside documented ranges")
    if not 0 <= sc.get("indirect", 0) <= 8 or any(s < 0 for s in sc["starts"]):
        raise InvalidScenario("starts")
    profs = [sc.get("profile", {})] + list(sc.get("per_link", {}).values())
    for pr in profs[:1]:
        if "base" not in pr:  # KeyedLatency would silently default to 1 ms
            raise InvalidScenario("profile needs an explicit base delay")
    for pr in profs:
        bound = DELAY_FRAC.get(sc.get("klass"), 0.05)
        if pr.get("base", 0.0) < 0 or pr.get("jitter", 0.0) < 0 or pr.get("base", 0.0) + pr.get("jitter", 0.0) > bound * p * (1 + 1e-9) + 4e-9:
            raise InvalidScenario("delay bound of the healthy network exceeded")
        if set(pr) - {"base", "jitter"}:
            raise InvalidScenario("only base/jitter allowed")
        if 2 * (pr.get("base", 0.0) + pr.get("jitter", 0.0)) >= 0.5 * p + sc.get("suspicion_timeout", 0):
            raise InvalidScenario("round trip not inside the protocol's silence budget (ack window + suspicion timeout)")
    if sc["klass"] == "gossip":
        names = [f"m{i}" for i in range(n + 1)] + ["ghost"]

        def ok_updates(ups):
            return isinstance(ups, list) and all(
                isinstance(u, dict) and u.get("member") in names and u.get("state") in ("alive", "suspect", "dead")
                and isinstance(u.get("incarnation"), int) and not isinstance(u.get("incarnation"), bool)
                and 0 <= u["incarnation"] <= 5 for u in ups)

        for g in sc.get("gossip", []):
            if g.get("to") not in names[:n] or g.get("t", -1) < 0 or not ok_updates(g.get("updates")) \
                    or not isinstance(g.get("inc", 0), int) or not 0 <= g.get("inc", 0) <= 5:
                raise InvalidScenario("gossip message")
        if not all(ok_updates(u) for u in sc.get("ack_updates", [])):
            raise InvalidScenario("ack updates")
    elif sc["klass"] not in HEALTHY:
        if not 0 <= sc.get("victim", -1) < n or sc.get("crash_t", -1) < 0:
            raise InvalidScenario("victim")
    if sc["klass"] == "flap" and sc.get("restart_t", 0) <= sc["crash_t"]:
        raise InvalidScenario("restart")
    if sc.get("horizon", 0) <= 0 or sc["horizon"] > 4000:
        raise InvalidScenario("horizon")
    return n


def validate(sc):
    """Structural validation only; used to prove the generator never emits an invalid scenario."""
    if sc.get("klass") == "phi":
        if sc.get("min_std", 0.1) <= 0 or sc.get("max_sample_size", 200) < 1 or sc.get("grid_n", 0) < 2 or any(g < 0 for g in sc["gaps"]):
            raise InvalidScenario("phi parameters")
        return None
    if sc.get("klass") not in ("healthy", "healthy-moderate", "failure", "failure-early", "flap", "gossip"):
        raise InvalidScenario("klass")
    return _validate(sc)


def run(sc):
    if sc.get("klass") == "phi":
        return run_phi(sc)
    if sc.get("klass") not in ("healthy", "healthy-moderate", "failure", "failure-early", "flap", "gossip"):
        raise InvalidScenario("klass")
    n = _validate(sc)
    klass = sc["klass"]
    p = sc["probe_interval"]
    seed_globals(sc["seed"])
    ref = NetRef()
    nodes = [MembershipProtocol(name=f"m{i}", network=ref, probe_interval=p, suspicion_timeout=sc["suspicion_timeout"],
                                indirect_probe_count=sc["indirect"], phi_threshold=sc["phi_threshold"]) for i in range(n)]
    for a in nodes:
        for b in nodes:
            if a is not b:
                a.add_member(b)
    peer = None
    mesh_nodes = list(nodes)
    if klass == "gossip":
        peer = GossipPeer(f"m{n}", ref, {x.name: x for x in nodes}, sc.get("ack_updates", []))
        for a in nodes:
            a.add_member(peer)
        mesh_nodes.append(peer)
    net, links = build_mesh("net", mesh_nodes, sc["net_seed"], sc["profile"], sc.get("per_link") or None)
    ref.net = net
    sim = Simulation(entities=[net, *mesh_nodes, *links.values()], end_time=Instant.from_seconds(sc["horizon"]))
    if peer is not None:
        for k, g in enumerate(sorted(sc.get("gossip", []), key=lambda g: g["t"])):
            sim.schedule(Event(time=Instant.from_seconds(g["t"]), event_type="gossip.send", target=peer, daemon=True,
                               context={"metadata": {"g": g, "k": k}}))
    victim = sc.get("victim")
    vname = f"m{victim}" if victim is not None else None
    faults = []
    if klass not in HEALTHY and klass != "gossip":
        faults.append({"kind": "crash", "node": victim, "start": sc["crash_t"],
                       "end": sc["restart_t"] if klass == "flap" else None})
    fd = FaultDriver(net, nodes, links, faults)
    sim.schedule(fd.events())
    by_name = {x.name: x for x in nodes}

    def starter(node):
        def fn(ev):
            if getattr(node, "_crashed", False):
                return None
            return node.start()
        return fn

    for i, nd in enumerate(nodes):
        sim.schedule(Event.once(time=Instant.from_seconds(sc["starts"][i]), event_type="start", fn=starter(nd)))
    if klass == "flap":
        # epsilon after the crash window closes (FaultDriver boundary event runs at restart_t)
        sim.schedule(Event.once(time=Instant.from_seconds(sc["restart_t"] + 1e-6), event_type="restart",
                                fn=starter(nodes[victim])))

    dmax = max([sc["profile"].get("base", 0) + sc["profile"].get("jitter", 0)] +
               [v.get("base", 0) + v.get("jitter", 0) for v in (sc.get("per_link") or {}).values()])
    deadline = None
    if klass in ("failure", "failure-early"):
        deadline = sc["crash_t"] + dmax + deadline_rounds(n, p, sc["phi_threshold"], dmax)

    # observer state: view[x][m] = (state letter, incarnation)
    all_names = list(by_name) + ([peer.name] if peer is not None else [])
    view = {x.name: {m: ("A", 0) for m in all_names if m != x.name} for x in nodes}
    # reference bookkeeping for "DEAD never reverts without a higher incarnation" (independent of MemberInfo.incarnation):
    # ref_inc = incarnation the *specified* update rules would have recorded; dead_at = highest incarnation at which the
    # observer reported the member DEAD; seen_since = highest incarnation about the member received since then
    ref_inc = {x.name: dict.fromkeys(view[x.name], 0) for x in nodes}
    dead_at = {x.name: {} for x in nodes}
    seen_since = {x.name: {} for x in nodes}
    sim_dead = {}
    last_gseq = {}
    pr = {"live_member_suspected": 0, "suspect_revived": 0, "victim_declared_dead": 0, "dead_learned_by_gossip": 0,
          "victim_only_suspect_at_deadline": 0, "never_heard_pair": 0, "dead_member_spoke_again": 0,
          "same_target_probed_twice_in_a_row": 0, "phi_samples": 0, "suspected_on_missed_ack": 0,
          "never_heard_member_suspected": 0, "late_ack_revived_member": 0, "gossip_stale_alive_after_dead_ignored": 0,
          "gossip_higher_incarnation_revived_dead": 0, "gossip_dead_verdict_applied": 0, "gossip_update_about_receiver": 0,
          "gossip_reordered_by_network": 0, "short_suspicion_timeout_with_late_ack": 0, "lists_polled": 0,
          "alive_to_dead_directly_by_gossip": 0}
    last_probe = {}
    past_deadline_checked = [False]
    phi_track = {}  # observer -> (heartbeat count, last phi, last t) for the victim's detector after the crash

    def is_live(name, now):
        if name != vname:
            return True
        if now < sc["crash_t"]:
            return True
        return klass == "flap" and now >= sc["restart_t"]

    def note_updates(x, md, et):
        """Reference reading of the update list just delivered to x (spec of _apply_updates, incarnation bookkeeping
        only; the member's state before the message is the observed one)."""
        sim_dead.clear()
        vx = view[x.name]
        if "gseq" in md:
            if md["gseq"] < last_gseq.get(x.name, -1):
                pr["gossip_reordered_by_network"] = 1
            last_gseq[x.name] = max(last_gseq.get(x.name, -1), md["gseq"])
        ups = md.get("updates") or []
        src = md.get("from")
        if src in vx and isinstance(md.get("incarnation"), int):
            m = src  # direct contact carries the sender's own incarnation
            if m in dead_at[x.name]:
                seen_since[x.name][m] = max(seen_since[x.name].get(m, -1), md["incarnation"])
        state = {}
        for u in ups:
            m, st_s, inc = u.get("member"), u.get("state"), u.get("incarnation", 0)
            if m == x.name:
                pr["gossip_update_about_receiver"] = 1
            if m not in vx:
                continue
            if m in dead_at[x.name]:
                seen_since[x.name][m] = max(seen_since[x.name].get(m, -1), inc)
            cur = state.get(m, vx[m][0])
            ri = ref_inc[x.name][m]
            if inc < ri:
                if cur == "D" and st_s == "alive":
                    pr["gossip_stale_alive_after_dead_ignored"] = 1
                continue
            if st_s == "suspect" and cur == "A":
                state[m] = "S"
                ref_inc[x.name][m] = max(ri, inc)
            elif st_s == "dead" and cur != "D":
                state[m] = "D"
                ref_inc[x.name][m] = max(ri, inc)
                sim_dead[m] = ref_inc[x.name][m]
            elif st_s == "alive" and inc > ri:
                state[m] = "A"
                ref_inc[x.name][m] = inc
            elif st_s == "alive" and cur == "D":
                pr["gossip_stale_alive_after_dead_ignored"] = 1

    def check_node(x, ev, now):
        vx = view[x.name]
        for m, info in x._members.items():
            st = _ST[info.state]
            old, old_inc = vx[m]
            if st == old and info.incarnation == old_inc:
                continue
            if st == "D" and old != "D":
                # the incarnation at which x now reports m DEAD: that of the verdict it was sent, else what it knew
                d = sim_dead.get(m, ref_inc[x.name][m])
                dead_at[x.name][m] = max(dead_at[x.name].get(m, -1), d)
                seen_since[x.name][m] = -1
                if m in sim_dead:
                    pr["gossip_dead_verdict_applied"] = 1
            if old == "D" and st != "D" and m in dead_at[x.name]:
                if seen_since[x.name].get(m, -1) <= dead_at[x.name][m]:
                    raise Violation(f"C13/dead-stays-dead/MembershipProtocol/{_st_name(st)}-on-{ev.event_type}/no-higher-incarnation-received",
                                    f"{x.name} reported {m} DEAD at incarnation {dead_at[x.name][m]}; the highest incarnation about "
                                    f"{m} it has received since is {seen_since[x.name].get(m, -1)}, yet during {ev.event_type} at "
                                    f"t={now:.6f} it reports {m} {_st_name(st)} (its recorded incarnation: {info.incarnation})")
                pr["gossip_higher_incarnation_revived_dead"] = 1
                dead_at[x.name].pop(m, None)
            # ---- DEAD never reverts to ALIVE without a higher incarnation (all classes)
            if old == "D" and st != "D" and info.incarnation <= old_inc:
                raise Violation(f"C13/dead-stays-dead/MembershipProtocol/{_st_name(st)}-on-{ev.event_type}",
                                f"{x.name} reported {m} DEAD (incarnation {old_inc}) and now reports it {_st_name(st)} "
                                f"with incarnation {info.incarnation} during {ev.event_type} at t={now:.6f}")
            # ---- accuracy: a live member is never DEAD on a healthy network
            if st == "D" and klass not in ("flap", "gossip") and is_live(m, now):
                path = "own-suspicion-timeout" if ev.event_type == "MembershipSuspicionTimeout" else \
                    "dead-update-from-peer" if ev.event_type in ("MembershipPing", "MembershipAck") else ev.event_type
                raise Violation(f"C13/no-false-dead/MembershipProtocol/{path}",
                                f"{x.name} marks live member {m} DEAD during {ev.event_type} at t={now:.6f} "
                                f"(class {klass}; every message delivered within {dmax:.6f}s = {dmax / p:.3%} of the probe interval)")
            if st == "S" and is_live(m, now):
                pr["live_member_suspected"] = 1
            if st == "S" and old == "A" and ev.event_type == "MembershipIndirectPing":
                pr["suspected_on_missed_ack"] = 1
                if info.detector.last_heartbeat is None:
                    pr["never_heard_member_suspected"] = 1
            if old == "S" and st == "A":
                pr["suspect_revived"] = 1
                if klass == "healthy-moderate" and ev.event_type == "MembershipAck":
                    pr["late_ack_revived_member"] = 1
                    if sc["suspicion_timeout"] < 0.5 * p:
                        pr["short_suspicion_timeout_with_late_ack"] = 1
            if st == "D" and old == "A" and ev.event_type in ("MembershipPing", "MembershipAck"):
                pr["alive_to_dead_directly_by_gossip"] = 1
            if st == "D" and m == vname:
                pr["victim_declared_dead"] = 1
                if ev.event_type != "MembershipSuspicionTimeout":
                    pr["dead_learned_by_gossip"] = 1
            vx[m] = (st, info.incarnation)

    def views_agree(x, ev, now):
        """The reporting lists (alive_members / suspected_members / dead_members) and get_member_state() are two faces of
        one view: polled after every delivery (which also keeps any cached index warm) and required to agree."""
        lists = {"A": x.alive_members, "S": x.suspected_members, "D": x.dead_members}
        for letter, names in lists.items():
            for m in names:
                st = x.get_member_state(m)
                if st is None or _ST[st] != letter:
                    raise Violation(f"C13/views-agree/MembershipProtocol/{_st_name(letter)}-list-holds-{_st_name(_ST[st]) if st else 'unknown'}-member",
                                    f"{x.name}.{ {'A': 'alive_members', 'S': 'suspected_members', 'D': 'dead_members'}[letter] } contains {m} "
                                    f"but get_member_state({m!r}) is {st.name if st else None} (after {ev.event_type} at t={now:.6f})")
        if sum(len(v) for v in lists.values()) != len(x._members):
            missing = [m for m in x._members if not any(m in v for v in lists.values())]
            raise Violation("C13/views-agree/MembershipProtocol/member-in-no-list",
                            f"{x.name}: members {missing} appear in none of alive/suspected/dead_members (after {ev.event_type} at t={now:.6f})")
        pr["lists_polled"] += 1

    def completeness(x, now):
        info = x._members[vname]
        if info.state == MemberState.ALIVE:
            heard = info.detector.last_heartbeat is not None
            detail = "heard-before-crash" if heard else "never-heard-from-victim"
            raise Violation(f"C13/crash-detected/MembershipProtocol/{detail}",
                            f"{vname} crashed for good at t={sc['crash_t']:.6f}; at t={now:.6f} "
                            f"({(now - sc['crash_t']) / p:.1f} probe intervals later, deadline was "
                            f"{(deadline - sc['crash_t']) / p:.1f}) live node {x.name} still reports it ALIVE "
                            f"(last contact: {info.detector.last_heartbeat})")

    def invariant(ev, mon):
        x = ev.target
        if not isinstance(x, MembershipProtocol):
            return
        now = ev.time.to_seconds()
        if getattr(x, "_crashed", False):
            return
        et = ev.event_type
        if et == "MembershipPing" and klass == "flap":
            src = ev.context.get("metadata", {}).get("from")
            if src == vname and view[x.name].get(vname, ("A", 0))[0] == "D":
                pr["dead_member_spoke_again"] = 1
        if et in ("MembershipPing", "MembershipAck", "MembershipIndirectAck"):
            note_updates(x, ev.context.get("metadata", {}), et)
        else:
            sim_dead.clear()
        check_node(x, ev, now)
        views_agree(x, ev, now)
        if deadline is not None and now > deadline:
            if not past_deadline_checked[0]:
                past_deadline_checked[0] = True
                for y in nodes:
                    if y.name != vname:
                        st = y._members[vname].state
                        if st == MemberState.SUSPECT:
                            pr["victim_only_suspect_at_deadline"] = 1
                        completeness(y, now)
            elif x.name != vname:
                completeness(x, now)
        # phi of the victim's detector must not decrease after the crash (no heartbeat can arrive)
        if deadline is not None and et == "MembershipProbeTick" and x.name != vname and now > sc["crash_t"] + dmax:
            det = x._members[vname].detector
            cnt = det.stats.heartbeats_received
            v = det.phi(now)
            pr["phi_samples"] += 1
            old = phi_track.get(x.name)
            if old is not None and old[0] == cnt and v < old[1] - 1e-9 * max(1.0, abs(old[1])):
                raise Violation("C13/phi-monotone/PhiAccrualDetector/decreases-in-cluster",
                                f"{x.name}'s detector for crashed {vname}: phi({old[2]:.6f})={old[1]} > phi({now:.6f})={v} "
                                f"with no heartbeat in between")
            phi_track[x.name] = (cnt, v, now)

    mon = Monitor(sim, cap=400_000, invariant=invariant)
    # probe: consecutive probes of one target (observed on the wire: first-hop MembershipPing without indirect_for)
    orig_inv = mon.invariant

    def inv2(ev, m):
        if ev.target is net and ev.event_type == "MembershipPing" and type(ev) is Event:
            md = ev.context.get("metadata", {})
            if "indirect_for" not in md:
                s, d = md.get("source"), md.get("destination")
                if last_probe.get(s) == d:
                    pr["same_target_probed_twice_in_a_row"] = 1
                last_probe[s] = d
        orig_inv(ev, m)

    mon.invariant = inv2
    status, payload = run_sim(sim)
    sig, msg = None, ""
    if status in ("violation", "exception"):
        sig, msg = payload.sig, payload.msg
        if status == "exception":
            sig = f"C13/{sig}"
    budget = int(status == "budget")  # not a verdict; counted, and the run is not "non-trivial"
    # never-heard probe (failure-early): some live node had no contact before the crash
    if klass in ("failure", "failure-early"):
        for x in nodes:
            if x.name != vname and x._members[vname].detector.last_heartbeat is None:
                pr["never_heard_pair"] = 1
    counters = {f"probe.{k}": v for k, v in pr.items() if k not in ("phi_samples", "lists_polled")}
    counters["lists.polls"] = pr["lists_polled"]
    counters["probe.indirect_path_taken"] = int(any(x.stats.indirect_probes_sent > 0 for x in nodes))
    counters["phi.samples_in_cluster"] = pr["phi_samples"]
    counters.update(fd.counters())
    counters["budget_exhausted"] = budget
    live = [x for x in nodes if x.name != vname or klass in HEALTHY or klass == "gossip"]
    cycles_ok = all(x.stats.probes_sent >= 2 * (n - 1) for x in live)
    nontrivial = (not budget) and cycles_ok and (klass in ("healthy", "healthy-moderate", "flap", "gossip") or (fd.fired.get("fault.crash", 0) > 0 and past_deadline_checked[0]))
    views = []
    for x in nodes:
        c = {"A": 0, "S": 0, "D": 0}
        for info in x._members.values():
            c[_ST[info.state]] += 1
        views.append((c["A"], c["S"], c["D"]))
    state = repr((klass, n, tuple(sorted(views)), pr["live_member_suspected"], pr["dead_learned_by_gossip"]))
    return result(sig=sig, msg=msg, digest=mon.digest, nontrivial=nontrivial, counters=counters,
                  sim_s=mon.last_time_ns / 1e9, deliveries=mon.seq, klass=klass, state=state)


def _st_name(letter):
    return {"A": "ALIVE", "S": "SUSPECT", "D": "DEAD"}[letter]
