"""C19 — messaging delivers until acknowledged, to the right consumers, in offset order.

Deterministic simulation with fault injection (DESIGN.md section 5, C19).  Every
component is driven THROUGH THE ENGINE by real harness entities (producer,
poller, consumers, ack-timeout watchdog, subscribers, group members), so delivery
events and their timestamps are observed end to end.

Scenario families
* ``queue/*``  MessageQueue (+DeadLetterQueue) with generated consumers (ack /
  reject-requeue / reject-discard / never answer -> watchdog calls
  schedule_redelivery), redelivery limits and delays, delivery latency 0 or >0,
  consumer subscribe/unsubscribe churn, consumer crash/pause windows (`_crashed`
  via simkit.chaosnet.FaultDriver) between delivery and ack, late acks/rejects
  after a redelivery was requested.
* ``topic/*``  Topic with subscribers joining/leaving between publishes, three
  publish paths (event / yield-from / publish_sync), subscriber crash windows.
* ``log/*``    EventLog (key sets, partition counts, retention) + ConsumerGroup
  (all assignment strategies, join/leave orders, poll/commit sequences including
  commits of smaller offsets, member crash windows, churn during polls).

Oracles are stated next to the code that evaluates them (QueueWorld.scan,
TopicWorld.finish, LogWorld.scan).
"""
from __future__ import annotations

import collections

from simkit import repo

repo.activate()

from happysimulator.components.messaging import DeadLetterQueue, MessageQueue, Topic  # noqa: E402
from happysimulator.components.streaming import (  # noqa: E402
    ConsumerGroup,
    EventLog,
    RangeAssignment,
    RoundRobinAssignment,
    SizeRetention,
    StickyAssignment,
    TimeRetention,
)
from happysimulator.core.entity import Entity  # noqa: E402
from happysimulator.core.event import Event, ProcessContinuation  # noqa: E402
from happysimulator.core.simulation import Simulation  # noqa: E402
from happysimulator.core.temporal import Duration, Instant  # noqa: E402

from simkit.chaosnet import FaultDriver, gen_faults  # noqa: E402
from simkit.rng import seed_globals  # noqa: E402
from simkit.world import InvalidScenario, Monitor, Violation, result, run_sim, seeded_uuid  # noqa: E402

PROPERTY = "C19"
RUNS = {"quick": 6000, "thorough": 3_000_000}
WALL = {"quick": 50, "thorough": 1500}
BATCH = {"quick": 50, "thorough": 300}
RULE = (
    "each case is one generated messaging history run on the real engine: queue/* = <=40 published messages, 1-4 "
    "consumers with per-attempt behaviours (ack / reject-requeue / reject-discard / silent), periodic polls, watchdog "
    "redelivery requests, subscribe churn, crash windows; topic/* = <=30 publishes interleaved with subscribe/unsubscribe; "
    "log/* = <=60 appends over 1-6 partitions plus join/leave/poll/commit scripts of 1-4 group members. non-trivial = "
    "(queue) >=3 deliveries counted and >=1 redelivery or reject; (topic) >=2 publishes with different active sets; "
    "(log) >=1 rebalance with >=2 members and >=1 poll returning records; distinct = distinct engine delivery digests"
)
STATE_MEASURE = "distinct (class, latency>0, limit, dlq, outcome multiset buckets / strategy, members, partitions, probes hit) tuples"
REAL = [
    "happysimulator.components.messaging.MessageQueue / DeadLetterQueue / Topic",
    "happysimulator.components.streaming.EventLog / ConsumerGroup / Range-, RoundRobin-, StickyAssignment / Time-, SizeRetention",
    "happysimulator.core.simulation.Simulation (instrumented loop), Event/ProcessContinuation/SimFuture",
]
STUBS = [
    "Producer / Poller / QConsumer / Watchdog / TSub / TDriver / GMember / LogClient harness entities",
    "simkit.chaosnet.FaultDriver crash/pause windows on consumers", "seeded uuid4",
    "accounting, delivery-expectation, exactly-once and offset reference models (oracles)",
]
ASSUMPTIONS = [
    "a delivery is 'counted' when the queue increments Message.delivery_count; it must arrive at Message.consumer "
    "delivery_latency later unless that consumer is inside a crash/pause window then",
    "'nothing delivered after its ack' is judged at the instant the queue hands the message out; a copy already in "
    "transit when a late ack arrives is not a violation (weaker reading)",
    "redelivery limit: the repository's own convention in both reject() and schedule_redelivery() is total attempts <= "
    "max(1, max_redeliveries); the statement does not say whether the first delivery counts, so this convention is the "
    "one checked (the docstring 'maximum redelivery attempts' would allow one more)",
    "without a DeadLetterQueue, reject(requeue=False) and limit exhaustion discard the message (documented 'discard or "
    "DLQ'); such ids count as accounted for",
    "publish() refusing with RuntimeError at capacity and Topic.subscribe() refusing at max_subscribers are documented "
    "behaviour, not violations",
    "a subscriber that is inside a crash window while a topic message is due is excused; replays (is_replay) are not "
    "counted as deliveries",
    "committed offsets are observed in ConsumerGroup._committed_offsets (the anchored state) after every engine event",
    "schedule_redelivery() answering None for an unacknowledged in-flight message under its limit is legitimate only "
    "while a redelivery timer previously handed out for that message has not fired yet (the watchdog then asks again "
    "one ack-timeout later); with no timer outstanding it is a refused redelivery",
]
EXPECTED_PROBES = [
    "probe.q_redelivered", "probe.q_dead_lettered", "probe.q_late_answer", "probe.q_crash_lost_delivery",
    "probe.q_rr_multiple_consumers", "probe.q_requeue", "probe.q_positive_latency_delivery_received",
    "probe.q_answer_while_copy_in_transit", "probe.q_late_answer_while_pending",
    "probe.q_redelivery_event_skipped_after_poll", "probe.q_redelivered_to_other_consumer",
    "probe.q_limit_exhausted_by_timeout", "probe.q_unsub_with_delivery_in_transit",
    "probe.q_request_after_skipped_timer", "probe.q_request_refused_timer_outstanding",
    "probe.q_request_later_than_redelivery_delay",
    "probe.t_positive_latency_received", "probe.t_unsubscribed_during_fanout",
    "probe.t_active_set_changed", "probe.t_resubscribed", "probe.l_rebalance_multi", "probe.l_retention_expired",
    "probe.l_commit_smaller", "probe.l_churn_during_poll", "probe.l_bounce_inside_rebalance_delay",
    "probe.l_assignment_checked_at_quiescence", "probe.l_partially_stale_multi_partition_commit",
    "probe.l_poll_reply_within_poll_latency_after_rebalance",
    "probe.l_poll_after_commit_returns_records", "fault.crash", "fault.pause",
]
SHRINK_SKIP = ("klass", "mode")
SELFTEST_RUNS = 8
US = 1000  # ns tolerance (1 microsecond) for float-seconds <-> integer-ns round trips


# --------------------------------------------------------------------------
# generators
# --------------------------------------------------------------------------

def _times(rng, n, horizon, step=0.001):
    g = max(2, int(horizon / step))
    return sorted(round(rng.randrange(0, g) * step, 6) for _ in range(n))


def gen_queue(rng):
    mode = rng.choice(["clean", "timeouts", "timeouts", "timeouts", "guarded"])
    nc = rng.randint(1, 4)
    horizon = rng.choice([0.1, 0.3])
    rdel = rng.choice([0.001, 0.003, 0.02, 0.1])
    ack_timeout = rng.choice([0.004, 0.01, 0.02, round(max(0.001, rdel * 0.5), 6), rdel, round(rdel * 3, 6)])
    msgs = []
    for t in _times(rng, rng.randint(1, 40), horizon):
        beh = []
        for _ in range(rng.randint(1, 5)):
            r = rng.random()
            if mode != "clean" and r < 0.35:
                beh.append(["silent"])
            elif r < 0.65:
                d = rng.choice([0.0, 0.0005, 0.002])
                if mode == "timeouts" and rng.random() < 0.3:
                    d = round(ack_timeout * rng.choice([1.0, 1.5, 4.0, 12.0]), 6)
                beh.append(["ack", d])
            else:
                d = rng.choice([0.0, 0.0005, 0.002])
                if mode == "timeouts" and rng.random() < 0.25:
                    d = round(ack_timeout * rng.choice([1.5, 4.0]), 6)
                beh.append(["reject", rng.random() < 0.7, d])
        if mode == "guarded":
            beh.append(["ack", 0.0])
        msgs.append({"t": t, "beh": beh})
    subs = []
    if rng.random() < 0.4:
        for t in _times(rng, rng.randint(1, 6), horizon * 1.5):
            subs.append({"t": round(t + 0.00037, 6), "c": rng.randrange(nc), "op": rng.choice(["sub", "unsub"])})
    faults = []
    if mode != "clean" and rng.random() < 0.6:
        faults = gen_faults(rng, nc, horizon * 2, kinds=("crash", "pause"), max_faults=3, min_len=0.003)
        for f in faults:
            if mode == "guarded" and f.get("end") is None:
                f["end"] = round(f["start"] + 0.05, 4)
    return {
        "klass": "queue", "mode": mode, "seed": rng.getrandbits(48),
        "latency": rng.choice([0.0, 0.001, 0.003, 0.01, 0.02]),
        "redelivery_delay": rdel,
        "max_redeliveries": rng.choice([0, 1, 2, 3, 5]) if mode != "guarded" else rng.choice([12, 16]),
        "dlq": rng.random() < 0.7, "capacity": rng.choice([None, None, None, 3, 10]), "n_consumers": nc,
        "poll_mode": rng.choice(["event", "event", "call"]), "poll_every": rng.choice([0.002, 0.005, 0.01]),
        "poll_until": round(horizon * rng.choice([1.5, 2.5]), 4), "ack_timeout": ack_timeout,
        "strict_timer": True if mode == "guarded" else rng.random() < 0.6, "msgs": msgs, "subs": subs, "faults": faults,
    }


def gen_topic(rng):
    ns = rng.randint(1, 5)
    ops = []
    t = 0.0
    for _ in range(rng.randint(3, 40)):
        t = round(t + rng.choice([0.0005, 0.002, 0.01]), 6)
        r = rng.random()
        if r < 0.45:
            ops.append({"t": t, "op": "pub", "mode": rng.choice(["event", "call", "sync"])})
        elif r < 0.75:
            ops.append({"t": t, "op": "sub", "s": rng.randrange(ns), "replay": rng.random() < 0.2})
        else:
            ops.append({"t": t, "op": "unsub", "s": rng.randrange(ns)})
    faults = []
    if rng.random() < 0.3:
        faults = gen_faults(rng, ns, max(t, 0.01), kinds=("crash", "pause"), max_faults=2, min_len=0.002)
    return {"klass": "topic", "mode": "faulty" if faults else "clean", "seed": rng.getrandbits(48), "n_subs": ns,
            "latency": rng.choice([0.0, 0.001, 0.001, 0.004, 0.01]),
            "max_subscribers": rng.choice([None, None, None, 2]), "retain": rng.random() < 0.3,
            "initial": [i for i in range(ns) if rng.random() < 0.5], "ops": ops, "faults": faults}


def gen_log(rng):
    nm = rng.randint(1, 4)
    horizon = rng.choice([0.3, 1.0])
    mode = rng.choice(["monotone-commits", "any-commits", "any-commits"])
    keys = [f"key-{i}" for i in range(rng.randint(1, 12))]
    ops = []
    for t in _times(rng, rng.randint(3, 60), horizon):
        ops.append({"t": t, "who": "producer", "kind": "append", "key": rng.choice(keys)})
    for t in _times(rng, rng.randint(3, 40), horizon):
        m = rng.randrange(nm)
        r = rng.random()
        t = round(t + 0.00021, 6)
        if r < 0.25:
            ops.append({"t": t, "who": m, "kind": "join"})
        elif r < 0.35:
            ops.append({"t": t, "who": m, "kind": "leave"})
        elif r < 0.7:
            ops.append({"t": t, "who": m, "kind": "poll", "max": rng.choice([1, 3, 10, 100])})
        elif r < 0.9:
            how = "polled" if mode == "monotone-commits" else rng.choice(
                ["polled", "polled", "rewind", "fixed", "mixed", "mixed", "saved", "dup", "map"])
            ops.append({"t": t, "who": m, "kind": "commit", "how": how, "k": rng.randint(1, 3),
                        "pid": rng.randrange(6), "off": rng.randrange(8), "mask": rng.getrandbits(6),
                        "map": [[p, rng.randrange(8)] for p in range(6) if rng.random() < 0.5]})
        else:
            ops.append({"t": t, "who": "reader", "kind": "read", "pid": rng.randrange(6), "off": rng.randrange(10),
                        "max": rng.choice([1, 5, 100])})
    rdelay = rng.choice([0.0, 0.005, 0.05, 0.2])
    for t in _times(rng, rng.choice([0, 0, 1, 2, 3]), horizon):
        # bounce: leave + re-join of the same name (or join + leave of a name) inside one rebalance delay
        m = rng.randrange(nm)
        gap = round(max(rdelay, 0.001) * rng.choice([0.1, 0.5, 0.9]), 6)
        first, second = rng.choice([("leave", "join"), ("leave", "join"), ("join", "leave")])
        t = round(t + 0.00057, 6)
        ops.append({"t": t, "who": m, "kind": first, "bounce": True})
        ops.append({"t": round(t + gap, 6), "who": m, "kind": second, "bounce": True})
    plat = rng.choice([0.0, 0.001, 0.001, 0.02])
    for o in [o for o in ops if o.get("kind") in ("join", "leave")]:
        if plat > 0 and rng.random() < 0.5:
            # polls that arrive less than poll_latency before / just after the rebalance this membership change triggers
            for _ in range(rng.randint(1, 3)):
                t = o["t"] + rdelay - plat * rng.choice([0.1, 0.5, 0.9, -0.2])
                if t >= 1e-4:
                    ops.append({"t": round(t, 7), "who": rng.randrange(nm), "kind": "poll", "max": rng.choice([3, 10, 100])})
    ops.sort(key=lambda o: o["t"])
    for m in range(nm):
        if rng.random() < 0.7:
            ops.insert(0, {"t": 0.0, "who": m, "kind": "join"})
    ret = rng.choice([None, None, {"kind": "time", "age": rng.choice([0.02, 0.1])},
                      {"kind": "size", "max": rng.choice([1, 3, 8])}])
    faults = []
    if rng.random() < 0.3:
        faults = gen_faults(rng, nm, horizon, kinds=("crash", "pause"), max_faults=2, min_len=0.005)
    return {"klass": "log", "mode": mode, "seed": rng.getrandbits(48), "n_members": nm,
            "partitions": rng.randint(1, 6), "strategy": rng.choice(["range", "roundrobin", "sticky"]),
            "retention": ret, "retention_interval": rng.choice([0.01, 0.05]),
            "append_latency": rng.choice([0.0, 0.001, 0.004]), "read_latency": rng.choice([0.0, 0.0005]),
            "rebalance_delay": rdelay, "poll_latency": plat,
            "horizon": round(horizon * 1.5, 4), "ops": ops, "faults": faults}


def gen(rng, tier):
    r = rng.random()
    if r < 0.5:
        return gen_queue(rng)
    if r < 0.7:
        return gen_topic(rng)
    return gen_log(rng)


# --------------------------------------------------------------------------
# shared helpers
# --------------------------------------------------------------------------

def _num(x, lo=0.0):
    if isinstance(x, bool) or not isinstance(x, (int, float)) or x < lo:
        raise InvalidScenario("number")
    return float(x)


def _lat(x):
    """A latency is either exactly 0 or at least 0.1 ms (keeps minimised replays realistic)."""
    v = _num(x)
    if v != 0.0 and v < 1e-4:
        raise InvalidScenario("latency")
    return v


def _at(t):
    return Instant.from_seconds(_num(t))


def _crash_windows(faults, n):
    out = [[] for _ in range(n)]
    for f in faults or []:
        if f.get("kind") in ("crash", "pause") and isinstance(f.get("node"), int) and 0 <= f["node"] < n:
            end = f.get("end")
            out[f["node"]].append((int(_num(f.get("start", 0)) * 1e9) - US,
                                   (int(_num(end) * 1e9) if end is not None else 10**18) + US))
    return out


def _covered(windows, t0, t1):
    return any(a <= t1 and t0 <= b for a, b in windows)


def _stale_top(sim, now_ns, etype):
    """Diagnostic only (narrows the signature): is the next heap event of type `etype` stamped before now?"""
    heap = sim._event_heap
    if heap.has_events():
        top = heap.peek()
        if top.event_type == etype and top.time.nanoseconds < now_ns:
            return top
    return None


def _finish(status, payload, finish_fn):
    sig = msg = None
    if status in ("violation", "exception"):
        sig, msg = payload.sig, payload.msg
        if not sig.startswith("C19/"):
            sig = "C19/" + sig
    elif status == "ok":
        try:
            finish_fn()
        except Violation as v:
            sig, msg = v.sig, v.msg
    return sig, msg or ""


# --------------------------------------------------------------------------
# queue
# --------------------------------------------------------------------------

class Producer(Entity):
    def __init__(self, qw):
        super().__init__("producer")
        self.qw = qw

    def handle_event(self, ev):
        i = ev.context["metadata"]["i"]
        payload = Event(time=self.now, event_type="payload", target=self, context={"metadata": {"i": i}})
        try:
            gen = self.qw.q.publish(payload)
            self.qw.pub_order.append(i)
            mid = yield from gen
        except RuntimeError as e:
            if "capacity" in str(e) and self.qw.q.capacity is not None:
                self.qw.pub_order.remove(i)
                self.qw.refused += 1
                return None
            raise
        self.qw.published_ids[i] = mid
        return None


class Poller(Entity):
    def __init__(self, qw):
        super().__init__("poller")
        self.qw = qw

    def handle_event(self, ev):
        out = yield from self.qw.q.poll()
        return [out] if out is not None else None


class QConsumer(Entity):
    def __init__(self, name, idx, qw):
        super().__init__(name)
        self.idx, self.qw = idx, qw

    def handle_event(self, ev):
        if ev.event_type == "message_delivery":
            return self.qw.on_delivery(self, ev)
        if ev.event_type == "act":
            return self.qw.on_act(self, ev.context["metadata"])
        return None


class Watchdog(Entity):
    def __init__(self, qw):
        super().__init__("watchdog")
        self.qw = qw

    def handle_event(self, ev):
        return self.qw.on_timeout(ev.context["metadata"])


class Admin(Entity):
    def __init__(self, qw):
        super().__init__("admin")
        self.qw = qw

    def handle_event(self, ev):
        md = ev.context["metadata"]
        c = self.qw.consumers[md["c"]]
        if md["op"] == "sub":
            self.qw.q.subscribe(c)
            self.qw.subscribed.add(c.idx)
        else:
            self.qw.q.unsubscribe(c)
            self.qw.subscribed.discard(c.idx)
            if any(e["c"] == c.idx and not e["got"] and not e["excused"] for e in self.qw.open):
                self.qw.pr["unsub_with_delivery_in_transit"] += 1
        return None


class QueueWorld:
    def __init__(self, sc):
        self.sc = sc
        self.latency = _num(sc.get("latency", 0.0))
        self.lat_ns = int(self.latency * 1e9)
        self.limit = sc.get("max_redeliveries", 3)
        if isinstance(self.limit, bool) or not isinstance(self.limit, int) or self.limit < 0:
            raise InvalidScenario("limit")
        nc = sc.get("n_consumers", 1)
        if not isinstance(nc, int) or not 1 <= nc <= 6:
            raise InvalidScenario("n_consumers")
        rd = _num(sc.get("redelivery_delay", 0.02))
        if rd < 1e-3 or _num(sc.get("ack_timeout", 0.02)) < 1e-3 or (self.latency != 0.0 and self.latency < 1e-4):
            raise InvalidScenario("redelivery_delay / ack_timeout / latency too small to be meaningful")
        self.dlq = DeadLetterQueue("dlq") if sc.get("dlq") else None
        cap = sc.get("capacity")
        if cap is not None and (not isinstance(cap, int) or cap < 1):
            raise InvalidScenario("capacity")
        self.q = MessageQueue("q", delivery_latency=self.latency, redelivery_delay=rd, max_redeliveries=self.limit,
                              capacity=cap, dead_letter_queue=self.dlq)
        self.consumers = [QConsumer(f"c{i}", i, self) for i in range(nc)]
        self.producer, self.poller, self.watchdog, self.admin = Producer(self), Poller(self), Watchdog(self), Admin(self)
        self.subscribed = set()
        for c in self.consumers:
            self.q.subscribe(c)
            self.subscribed.add(c.idx)
        self.windows = _crash_windows(sc.get("faults"), nc)
        self.timeouts = sc.get("mode") in ("timeouts", "guarded")
        self.guard = sc.get("mode") == "guarded"
        self.ack_timeout_ns = int(_num(sc.get("ack_timeout", 0.02)) * 1e9)
        self.strict = bool(sc.get("strict_timer", True))
        self.msgs = sc.get("msgs") or []
        # bookkeeping
        self.pub_order = []
        self.published_ids = {}
        self.refused = 0
        self.idx_of = {}
        self.id_of = {}
        self.cnt = {}            # idx -> attempts counted so far
        self.first_delivered = []
        self.acked = {}          # idx -> ack time ns
        self.discarded = {}      # idx -> reason
        self.explicit_discard = set()
        self.last_call = {}
        self.expect = []         # delivery expectations
        self.open = []
        self.last_consumer = {}
        self.accepted = []       # accepted redelivery requests whose timer has not fired yet
        self.outstanding = collections.Counter()   # message id -> redelivery timers returned by the queue, not yet fired
        self.skipped_timer = set()                 # message ids whose redelivery timer fired after a poll had taken them
        self.req_count = {}      # message id -> attempts counted when the last redelivery was requested
        self.stale = set()
        self.receipts = 0
        self.prev_live_pending = 0
        self.last_fp = None
        self.now_ns = 0
        self.pr = collections.Counter()
        self.used_consumers = set()
        self.sim = None

    # ---- entity callbacks ------------------------------------------------
    def _beh(self, idx, attempt):
        m = self.msgs[idx] if 0 <= idx < len(self.msgs) else {}
        beh = m.get("beh") or [["ack", 0.0]]
        b = beh[min(max(attempt, 1) - 1, len(beh) - 1)]
        if not isinstance(b, list) or not b or b[0] not in ("ack", "reject", "silent") \
                or len(b) != {"ack": 2, "reject": 3, "silent": 1}[b[0]] or (b[0] == "reject" and not isinstance(b[1], bool)):
            raise InvalidScenario("behaviour")
        if b[0] != "silent" and _num(b[-1]) != 0.0 and _num(b[-1]) < 1e-4:
            raise InvalidScenario("answer delay")
        return b

    def on_delivery(self, c, ev):
        ctx = ev.context
        idx = ctx["payload"].context["metadata"]["i"]
        now = c.now.nanoseconds
        self.receipts += 1
        cands = [e for e in self.open if e["idx"] == idx and e["c"] == c.idx and not e["got"] and not e["excused"]]
        exp = next((e for e in cands if abs((now - e["t"]) - self.lat_ns) <= US), None)
        if exp is None and cands:
            e = cands[0]
            raise Violation("C19/delivery-instant/MessageQueue/arrival-not-at-initiation-plus-latency",
                            f"message #{idx} attempt {e['attempt']} handed out at {e['t']}ns arrived at {now}ns, "
                            f"latency is {self.lat_ns}ns")
        if exp is None:
            raise Violation("C19/uncounted-delivery/MessageQueue/consumer-received-delivery-the-queue-did-not-count",
                            f"{c.name} received message #{idx} (delivery_count={ctx.get('delivery_count')}) at {now}ns "
                            f"without a matching counted delivery")
        exp["got"] = True
        if self.lat_ns > 0:
            self.pr["poslat_received"] += 1
        b = self._beh(idx, exp["attempt"])
        if b[0] == "silent":
            return None
        delay = _num(b[-1])
        md = {"mid": ctx["message_id"], "idx": idx, "what": b[0], "requeue": bool(b[1]) if b[0] == "reject" else None,
              "attempt": exp["attempt"]}
        return Event(time=c.now + Duration(int(delay * 1e9)), event_type="act", target=c, context={"metadata": md})

    def _where(self, mid):
        q = self.q
        if mid in q._in_flight:
            return "in-flight"
        if mid in q._pending_queue:
            return "pending"
        return "gone" if q.get_message(mid) is None else "unlisted"

    def on_act(self, c, md):
        q = self.q
        mid, idx = md["mid"], md["idx"]
        msg = q.get_message(mid)
        where = self._where(mid)
        late = msg is None or where != "in-flight" or msg.delivery_count != md["attempt"]
        if any(e["idx"] == idx and not e["got"] and not e["excused"] for e in self.open):
            self.pr["answer_while_copy_in_transit"] += 1
        if late and where == "pending":
            self.pr["late_answer_while_pending"] += 1
        if late:
            if self.guard:          # well-behaved consumer: only answers for the attempt it still holds
                self.pr["guarded_skip"] += 1
                return None
            self.pr["late_answer"] += 1
        if md["what"] == "ack":
            self.last_call[idx] = f"ack-while-{where}"
            q.acknowledge(mid)
            if msg is not None:
                self.acked[idx] = c.now.nanoseconds
        else:
            rq = md["requeue"]
            self.last_call[idx] = f"reject-{'requeue' if rq else 'discard'}-while-{where}"
            cnt = msg.delivery_count if msg is not None else 0
            q.reject(mid, requeue=rq)
            if msg is not None:
                if rq and cnt < self.limit:
                    self.pr["requeue"] += 1
                else:
                    if not rq:
                        self.explicit_discard.add(idx)
                    if self.dlq is None:
                        self.discarded[idx] = "rejected"
        return None

    def on_timeout(self, md):
        q = self.q
        mid, idx = md["mid"], md["idx"]
        msg = q.get_message(mid)
        if self.strict and (msg is None or msg.delivery_count != md["attempt"] or mid not in q._in_flight):
            return None
        where = self._where(mid)
        cnt = msg.delivery_count if msg is not None else 0
        ev = q.schedule_redelivery(mid)
        if where == "in-flight":
            self.last_call[idx] = "schedule_redelivery-while-in-flight"
            if ev is None and cnt >= self.limit and q.get_message(mid) is None:
                self.pr["limit_exhausted_by_timeout"] += 1
                if self.dlq is None:
                    self.discarded[idx] = "limit"
        if ev is not None:
            now = self.watchdog.now.nanoseconds
            if ev.time.nanoseconds < now:
                self._viol("requested-redelivery-delivers", "redelivery-timer-stamped-before-the-request-instant",
                           f"schedule_redelivery(message #{idx}) at {now}ns returned a timer for {ev.time.nanoseconds}ns "
                           f"(redelivery_delay {self.sc.get('redelivery_delay')}s, last hand-out "
                           f"{msg.last_delivered_at.nanoseconds if msg is not None and msg.last_delivered_at else None}ns): it lies "
                           f"in the past, the engine drops it and the queue keeps the message marked as scheduled for ever")
            if now - (msg.last_delivered_at.nanoseconds if msg is not None and msg.last_delivered_at else now) \
                    >= int(_num(self.sc.get("redelivery_delay", 0.02)) * 1e9):
                self.pr["request_later_than_redelivery_delay"] += 1
            self.pr["redelivery_requested"] += 1
            self.req_count[mid] = cnt
            self.outstanding[mid] += 1
            self.accepted.append({"mid": mid, "idx": idx, "cnt": cnt, "due": ev.time.nanoseconds, "fired": False})
            if mid in self.skipped_timer:
                self.pr["request_after_skipped_timer"] += 1
            return [ev]
        if where == "in-flight" and cnt < self.limit and q.get_message(mid) is not None:
            # the queue refused to schedule a redelivery of an unacknowledged in-flight message under its limit
            if self.outstanding[mid] <= 0:
                self._viol("requested-redelivery-delivers", "redelivery-request-refused-although-no-redelivery-timer-is-outstanding",
                           f"schedule_redelivery(message #{idx}) returned None at {self.now_ns}ns: the message is in flight "
                           f"(attempt {cnt}, max_redeliveries={self.limit}), unacknowledged, and every redelivery timer the "
                           f"queue handed out for it has already fired (timer skipped after an early poll: "
                           f"{mid in self.skipped_timer}); it can never be redelivered or dead-lettered")
            self.pr["request_refused_timer_outstanding"] += 1
            n = md.get("retry", 0)
            if n < 8:       # a real ack-timeout sweeper asks again
                md2 = dict(md, retry=n + 1)
                return [Event(time=self.watchdog.now + Duration(self.ack_timeout_ns), event_type="timeout",
                              target=self.watchdog, context={"metadata": md2})]
        return None

    # ---- oracle: evaluated after every engine event ------------------------
    def _viol(self, inv, detail, msg):
        raise Violation(f"C19/{inv}/MessageQueue/{detail}", msg)

    def on_event(self, ev, mon):
        self.now_ns = now = ev.time.nanoseconds
        first = not isinstance(ev, ProcessContinuation)
        is_poll = first and ((ev.event_type == "poll" and ev.target is self.q) or ev.target is self.poller)
        is_redelivery = first and ev.event_type == "message_redelivery" and ev.target is self.q
        if is_redelivery:
            self.outstanding[ev.context.get("message_id")] -= 1
            for a in self.accepted:
                if a["mid"] == ev.context.get("message_id") and not a["fired"] and a["due"] <= now:
                    a["fired"] = True
                    break
        if self.accepted:
            # bounded liveness of an accepted redelivery request: its timer fires (the engine passes its instant)
            still = []
            for a in self.accepted:
                if a["fired"]:
                    continue
                if a["due"] + US < now:
                    i = a["idx"]
                    if self.q.get_message(a["mid"]) is not None and i not in self.acked and self.cnt.get(i, 0) <= a["cnt"]:
                        self._viol("requested-redelivery-delivers", "accepted-redelivery-request-never-fired",
                                   f"the redelivery of message #{i} accepted for {a['due']}ns did not happen by {now}ns: no "
                                   f"hand-out, no dead-lettering, message still unacknowledged")
                    self.outstanding[a["mid"]] -= 1
                    continue
                still.append(a)
            self.accepted = still
        top = _stale_top(self.sim, now, "message_delivery")
        if top is not None:
            self.stale.add((top.context["payload"].context["metadata"]["i"], top.target.name))
        st = self.q.stats
        fp = (len(self.q._messages), len(self.q._pending_queue), len(self.q._in_flight), st.messages_delivered,
              st.messages_redelivered, st.messages_acknowledged, st.messages_rejected, st.messages_dead_lettered,
              self.dlq.message_count if self.dlq else 0)
        initiated = 0
        if fp != self.last_fp or is_poll or is_redelivery:
            if fp != self.last_fp:      # nothing the oracle looks at can change without changing the fingerprint
                initiated = self.scan(ev, now)
                self.last_fp = fp
            if is_poll and self.prev_live_pending > 0 and self.prev_consumers > 0 and initiated == 0:
                head = self.q._pending_queue[0] if self.q._pending_queue else None
                ghost = head is not None and head not in self.q._messages
                self._viol("poll-delivers-pending", "ghost-id-at-head-of-pending-blocks-queue" if ghost else "poll-delivered-nothing",
                           f"poll at {now}ns delivered nothing although {self.prev_live_pending} message(s) were pending and "
                           f"{self.prev_consumers} consumer(s) subscribed (head of pending: {head!r}, ghost={ghost})")
            if is_redelivery and initiated == 0:
                self.pr["redelivery_event_skipped"] += 1
                self.skipped_timer.add(ev.context.get("message_id"))
            if is_redelivery and initiated == 0 and self.prev_consumers > 0:
                mid = ev.context.get("message_id")
                i = self.idx_of.get(mid)
                if self.q.get_message(mid) is not None and self.cnt.get(i, 0) <= self.req_count.get(mid, 0):
                    self._viol("requested-redelivery-delivers", "redelivery-event-delivered-nothing",
                               f"redelivery event for message #{self.idx_of.get(mid)} at {now}ns delivered nothing although the "
                               f"message is still unacknowledged, was not handed out since the request and {self.prev_consumers} "
                               f"consumer(s) are subscribed")
        self.prev_live_pending = sum(1 for m in self.q._pending_queue if m in self.q._messages)
        self.prev_consumers = self.q.consumer_count
        # overdue deliveries
        if self.open:
            still = []
            for e in self.open:
                if e["got"] or e["excused"]:
                    continue
                if e["t"] + self.lat_ns + US < now:
                    self._overdue(e)
                    if e["excused"]:
                        continue
                still.append(e)
            self.open = still

    prev_consumers = 0

    def _overdue(self, e):
        due = e["t"] + self.lat_ns
        if _covered(self.windows[e["c"]], due - US, due + US):
            e["excused"] = True
            self.pr["crash_lost"] += 1
            return
        stale = (e["idx"], f"c{e['c']}") in self.stale
        self._viol("delivery-reaches-consumer",
                   "delivery-event-stamped-before-emission-instant-discarded-by-engine" if stale else "counted-delivery-never-arrived",
                   f"message #{e['idx']} attempt {e['attempt']} was handed to c{e['c']} at {e['t']}ns (latency {self.lat_ns}ns) "
                   f"but the consumer never received it" + ("; the delivery event carried the pre-latency timestamp and the "
                                                            "engine dropped it as lying in the past" if stale else ""))

    def scan(self, ev, now):
        q = self.q
        msgs = q._messages
        pend = collections.Counter(q._pending_queue)
        infl = q._in_flight
        dead = collections.Counter(m.id for m in self.dlq.messages) if self.dlq else {}
        for mid, m in msgs.items():
            if mid not in self.idx_of:
                i = m.payload.context["metadata"]["i"]
                self.idx_of[mid], self.id_of[i] = i, mid
                self.cnt[i] = 0
        initiated = 0
        via = ev.event_type if ev.target is not self.poller else "poll-call"
        for i in sorted(self.id_of):
            mid = self.id_of[i]
            m = msgs.get(mid)
            if m is not None and m.delivery_count > self.cnt[i]:
                if m.delivery_count != self.cnt[i] + 1:
                    self._viol("attempt-counter", "delivery_count-jumped", f"message #{i} count {self.cnt[i]} -> {m.delivery_count}")
                self.cnt[i] = m.delivery_count
                initiated += 1
                self._initiation(i, m, now, via)
            n_p, n_f, n_d = pend.get(mid, 0), int(mid in infl), dead.get(mid, 0)
            a, x = int(i in self.acked), int(i in self.discarded)
            total = n_p + n_f + n_d + a + x
            if total == 1 and (m is not None) == bool(n_p + n_f):
                if n_d and self.cnt[i] < self.limit and i not in self.explicit_discard:
                    self._viol("redelivery-limit", "dead-lettered-before-limit",
                               f"message #{i} is in the DLQ after {self.cnt[i]} attempt(s), limit {self.limit}")
                continue
            lc = self.last_call.get(i, "no-consumer-call")
            if total == 0:
                d = "message-vanished"
            elif n_p >= 2:
                d = "id-twice-in-pending"
            elif n_p and n_f:
                d = "id-pending-and-in-flight"
            elif a and n_p:
                d = "acknowledged-id-still-pending"
            elif a and n_f:
                d = "acknowledged-id-still-in-flight"
            elif a and n_d:
                d = "acknowledged-and-dead-lettered"
            elif (n_d or x) and (n_p or n_f):
                d = "dead-lettered-or-discarded-id-still-queued"
            elif n_d >= 2:
                d = "dead-lettered-twice"
            elif total == 1:
                d = "listed-id-without-message-record" if m is None else "message-record-not-listed"
            else:
                d = "accounted-more-than-once"
            self._viol("queue-accounting", f"{d}/after-{lc}",
                       f"message #{i} at {now}ns: pending x{n_p}, in flight x{n_f}, DLQ x{n_d}, acknowledged={bool(a)}, "
                       f"discarded={bool(x)}, record={'yes' if m is not None else 'no'}; last consumer/watchdog call: {lc}")
        return initiated

    def _initiation(self, i, m, now, via):
        attempt = m.delivery_count
        c = m.consumer
        cidx = getattr(c, "idx", None)
        if cidx is None or cidx not in self.subscribed:
            self._viol("delivery-to-subscribed-consumer", "consumer-not-subscribed-at-hand-out",
                       f"message #{i} attempt {attempt} handed to {getattr(c, 'name', c)!r}, subscribed: {sorted(self.subscribed)}")
        self.used_consumers.add(cidx)
        if i in self.acked:
            self._viol("no-delivery-after-ack", "handed-out-after-acknowledge", f"message #{i} handed out at {now}ns after its ack")
        if attempt > max(1, self.limit):
            self._viol("redelivery-limit", f"attempt-beyond-limit-via-{via}",
                       f"message #{i} handed out for attempt {attempt} with max_redeliveries={self.limit} (via {via}); "
                       f"last call: {self.last_call.get(i)}")
        if attempt == 1:
            pos = self.pub_order.index(i)
            skipped = [j for j in self.pub_order[:pos] if self.cnt.get(j, 0) == 0 and j not in self.acked]
            if skipped:
                self._viol("first-delivery-order", "later-publish-delivered-first",
                           f"message #{i} got its first delivery before earlier published {skipped[:3]}")
            self.first_delivered.append(i)
        else:
            self.pr["redelivered"] += 1
            if self.last_consumer.get(i) not in (None, cidx):
                self.pr["redelivered_to_other_consumer"] += 1
        self.last_consumer[i] = cidx
        self.expect.append({"idx": i, "attempt": attempt, "c": cidx, "t": now, "got": False, "excused": False})
        self.open.append(self.expect[-1])
        if self.timeouts:
            at = Instant(now + self.lat_ns + self.ack_timeout_ns)
            self.sim.schedule(Event(time=at, event_type="timeout", target=self.watchdog,
                                    context={"metadata": {"mid": m.id, "idx": i, "attempt": attempt}}))

    def finish(self):
        self.scan(Event(time=Instant(self.now_ns), event_type="final", target=self.admin), self.now_ns)
        for e in self.expect:
            if not e["got"] and not e["excused"]:
                self._overdue(e)


def run_queue(sc):
    seed_globals(sc.get("seed", 0))
    qw = QueueWorld(sc)
    ents = [qw.q, qw.producer, qw.poller, qw.watchdog, qw.admin] + qw.consumers + ([qw.dlq] if qw.dlq else [])
    sim = Simulation(entities=ents)
    qw.sim = sim
    fd = FaultDriver(None, qw.consumers, {}, list(sc.get("faults") or []))
    evs = fd.events()
    for i, m in enumerate(qw.msgs):
        evs.append(Event(time=_at(m.get("t", 0)), event_type="pub", target=qw.producer, context={"metadata": {"i": i}}))
    every, until = _num(sc.get("poll_every", 0.01)), _num(sc.get("poll_until", 0.1))
    if every < 1e-3:
        raise InvalidScenario("poll_every")
    call = sc.get("poll_mode") == "call"
    k = 0
    while k * every <= until and k < 4000:
        t = Instant.from_seconds(round(k * every + 0.00011, 6))
        evs.append(Event(time=t, event_type="pollc" if call else "poll", target=qw.poller if call else qw.q))
        k += 1
    for s in sc.get("subs") or []:
        if not (isinstance(s.get("c"), int) and 0 <= s["c"] < len(qw.consumers)) or s.get("op") not in ("sub", "unsub"):
            raise InvalidScenario("subs")
        evs.append(Event(time=_at(s.get("t", 0)), event_type="admin", target=qw.admin,
                         context={"metadata": {"c": s["c"], "op": s["op"]}}))
    sim.schedule(evs)
    mon = Monitor(sim, cap=60_000, invariant=qw.on_event)
    with seeded_uuid(sc.get("seed", 0)):
        status, payload = run_sim(sim)
    sig, msg = _finish(status, payload, qw.finish)
    pr = qw.pr
    n_dead = qw.dlq.message_count if qw.dlq else 0
    counters = {
        "probe.q_redelivered": int(pr["redelivered"] > 0), "probe.q_dead_lettered": int(n_dead > 0),
        "probe.q_late_answer": int(pr["late_answer"] > 0), "probe.q_crash_lost_delivery": int(pr["crash_lost"] > 0),
        "probe.q_rr_multiple_consumers": int(len(qw.used_consumers) > 1), "probe.q_requeue": int(pr["requeue"] > 0),
        "probe.q_positive_latency_delivery_received": int(pr["poslat_received"] > 0),
        "probe.q_answer_while_copy_in_transit": int(pr["answer_while_copy_in_transit"] > 0),
        "probe.q_late_answer_while_pending": int(pr["late_answer_while_pending"] > 0),
        "probe.q_redelivery_event_skipped_after_poll": int(pr["redelivery_event_skipped"] > 0),
        "probe.q_redelivered_to_other_consumer": int(pr["redelivered_to_other_consumer"] > 0),
        "probe.q_limit_exhausted_by_timeout": int(pr["limit_exhausted_by_timeout"] > 0),
        "probe.q_unsub_with_delivery_in_transit": int(pr["unsub_with_delivery_in_transit"] > 0),
        "probe.q_request_after_skipped_timer": int(pr["request_after_skipped_timer"] > 0),
        "probe.q_request_later_than_redelivery_delay": int(pr["request_later_than_redelivery_delay"] > 0),
        "probe.q_request_refused_timer_outstanding": int(pr["request_refused_timer_outstanding"] > 0),
        "q_deliveries_counted": len(qw.expect), "q_receipts": qw.receipts, "q_publish_refused": qw.refused,
        "q_redelivery_requests": pr["redelivery_requested"], "budget_runs": int(status == "budget"),
    }
    counters.update(fd.counters())
    klass = f"queue/{sc.get('mode')}/{'latency0' if qw.lat_ns == 0 else 'latency>0'}"
    state = repr((klass, qw.limit, qw.dlq is not None, min(len(qw.acked), 3), min(n_dead, 3), min(len(qw.discarded), 2),
                  pr["redelivered"] > 0, pr["late_answer"] > 0, pr["crash_lost"] > 0, len(qw.used_consumers)))
    return result(sig=sig, msg=msg, digest=mon.digest,
                  nontrivial=len(qw.expect) >= 3 and (pr["redelivered"] > 0 or pr["requeue"] > 0 or n_dead > 0),
                  counters=counters, sim_s=mon.last_time_ns / 1e9, deliveries=mon.seq, klass=klass, state=state)


# --------------------------------------------------------------------------
# topic
# --------------------------------------------------------------------------

class TSub(Entity):
    def __init__(self, name, idx, tw):
        super().__init__(name)
        self.idx, self.tw = idx, tw

    def handle_event(self, ev):
        if ev.event_type == "topic_message":
            ctx = ev.context
            if not ctx.get("is_replay"):
                n = ctx["payload"].context["metadata"]["n"]
                self.tw.got[(n, self.idx)] += 1
                self.tw.got_at[(n, self.idx)] = self.now.nanoseconds
            else:
                self.tw.replays += 1
        return None


class TDriver(Entity):
    def __init__(self, tw):
        super().__init__("tdriver")
        self.tw = tw

    def handle_event(self, ev):
        op = ev.context["metadata"]["op"]
        tw = self.tw
        t = tw.topic
        if op["op"] in ("sub", "unsub"):
            s = tw.subs[op["s"]]
            out = None
            if op["op"] == "sub":
                try:
                    out = t.subscribe(s, replay_history=bool(op.get("replay")))
                    if s.idx in tw.ever and s.idx not in tw.active:
                        tw.resub += 1
                    if s.idx not in tw.active:
                        tw.active.append(s.idx)
                    tw.ever.add(s.idx)
                except RuntimeError as e:
                    if "max subscribers" not in str(e) or t.max_subscribers is None:
                        raise
                    tw.refused += 1
            else:
                t.unsubscribe(s)
                now = self.now.nanoseconds
                if any(s.idx in p["active"] and p["t"] <= now <= p["t"] + len(p["active"]) * tw.lat_ns
                       and not tw.got.get((p["n"], s.idx)) for p in tw.pubs[-4:]) and tw.lat_ns:
                    tw.unsub_during_fanout += 1
                if s.idx in tw.active:
                    tw.active.remove(s.idx)
            got = sorted(x.idx for x in t.subscribers)
            if got != sorted(tw.active):
                raise Violation("C19/topic-subscription-state/Topic/active-set-differs-from-subscribe-unsubscribe-history",
                                f"after {op}: topic lists {got}, history gives {sorted(tw.active)}")
            return out or None
        payload = tw.new_payload(self)
        tw.note_publish(payload, self.now.nanoseconds)
        if op.get("mode") == "sync":
            return t.publish_sync(payload)
        return (yield from t.publish(payload))


class TopicWorld:
    def __init__(self, sc):
        self.sc = sc
        ns = sc.get("n_subs", 1)
        if not isinstance(ns, int) or not 1 <= ns <= 6:
            raise InvalidScenario("n_subs")
        self.latency = _lat(sc.get("latency", 0.0))
        self.lat_ns = int(self.latency * 1e9)
        mx = sc.get("max_subscribers")
        if mx is not None and (not isinstance(mx, int) or mx < 1):
            raise InvalidScenario("max_subscribers")
        self.topic = Topic("topic", delivery_latency=self.latency, max_subscribers=mx)
        if sc.get("retain"):
            self.topic.set_retain_messages(True, max_history=5)
        self.subs = [TSub(f"s{i}", i, self) for i in range(ns)]
        self.driver = TDriver(self)
        self.active = []
        self.ever = set()
        self.resub = self.refused = self.replays = self.unsub_during_fanout = 0
        self.pubs = []       # {"n", "t", "active"}
        self.pending_event_pubs = {}
        self.got = collections.Counter()
        self.got_at = {}
        self.stale = set()
        self.windows = _crash_windows(sc.get("faults"), ns)
        self.sim = None

    def new_payload(self, target):
        n = len(self.pubs) + len(self.pending_event_pubs)
        return Event(time=Instant(0), event_type="payload", target=target, context={"metadata": {"n": n}})

    def note_publish(self, payload, now):
        self.pubs.append({"n": payload.context["metadata"]["n"], "t": now, "active": list(self.active)})

    def on_event(self, ev, mon):
        now = ev.time.nanoseconds
        if ev.event_type == "publish" and ev.target is self.topic and not isinstance(ev, ProcessContinuation):
            p = ev.context["payload"]
            self.pending_event_pubs.pop(id(p), None)
            self.note_publish(p, now)
        top = _stale_top(self.sim, now, "topic_message")
        if top is not None and not top.context.get("is_replay"):
            self.stale.add(top.context["payload"].context["metadata"]["n"])  # only the first of a batch is visible

    def finish(self):
        for p in self.pubs:
            n, act = p["n"], p["active"]
            span = (len(act) + 1) * self.lat_ns + US
            for s in range(len(self.subs)):
                k = self.got.get((n, s), 0)
                if s in act:
                    if k == 1:
                        continue
                    if k == 0:
                        if _covered(self.windows[s], p["t"] - US, p["t"] + span):
                            continue
                        stale = n in self.stale
                        raise Violation(
                            "C19/topic-exactly-once/Topic/" + ("delivery-event-stamped-before-emission-instant-discarded-by-engine"
                                                               if stale else "active-subscriber-never-received"),
                            f"publish #{n} at {p['t']}ns with active subscribers {act}: s{s} received it {k} times"
                            + ("; the delivery event carried the publish-time stamp, lay in the past after the per-subscriber "
                               "latency and was dropped by the engine" if stale else ""))
                    raise Violation("C19/topic-exactly-once/Topic/active-subscriber-received-duplicate",
                                    f"publish #{n}: s{s} received it {k} times")
                elif k:
                    raise Violation("C19/topic-exactly-once/Topic/delivered-to-subscriber-inactive-at-publish",
                                    f"publish #{n} at {p['t']}ns had active set {act} but s{s} received it")


def run_topic(sc):
    seed_globals(sc.get("seed", 0))
    tw = TopicWorld(sc)
    sim = Simulation(entities=[tw.topic, tw.driver] + tw.subs)
    tw.sim = sim
    for i in sc.get("initial") or []:
        if isinstance(i, int) and 0 <= i < len(tw.subs) and i not in tw.active:
            if tw.topic.max_subscribers is not None and len(tw.active) >= tw.topic.max_subscribers:
                continue
            tw.topic.subscribe(tw.subs[i])
            tw.active.append(i)
            tw.ever.add(i)
    fd = FaultDriver(None, tw.subs, {}, list(sc.get("faults") or []))
    evs = fd.events()
    for op in sc.get("ops") or []:
        kind = op.get("op")
        if kind in ("sub", "unsub"):
            if not (isinstance(op.get("s"), int) and 0 <= op["s"] < len(tw.subs)):
                raise InvalidScenario("s")
        elif kind != "pub":
            raise InvalidScenario("op")
        if kind == "pub" and op.get("mode") == "event":
            p = tw.new_payload(tw.driver)
            tw.pending_event_pubs[id(p)] = p
            evs.append(Event(time=_at(op.get("t", 0)), event_type="publish", target=tw.topic, context={"payload": p}))
        else:
            evs.append(Event(time=_at(op.get("t", 0)), event_type="top", target=tw.driver, context={"metadata": {"op": op}}))
    sim.schedule(evs)
    mon = Monitor(sim, cap=30_000, invariant=tw.on_event)
    status, payload = run_sim(sim)
    sig, msg = _finish(status, payload, tw.finish)
    sets = {tuple(p["active"]) for p in tw.pubs}
    counters = {"probe.t_active_set_changed": int(len(sets) > 1), "probe.t_resubscribed": int(tw.resub > 0),
                "probe.t_positive_latency_received": int(tw.lat_ns > 0 and sum(tw.got.values()) > 0),
                "probe.t_unsubscribed_during_fanout": int(tw.unsub_during_fanout > 0),
                "t_publishes": len(tw.pubs), "t_receipts": sum(tw.got.values()), "t_subscribe_refused": tw.refused,
                "t_replays": tw.replays, "budget_runs": int(status == "budget")}
    counters.update(fd.counters())
    klass = f"topic/{sc.get('mode', 'clean')}/{'latency0' if tw.lat_ns == 0 else 'latency>0'}"
    state = repr((klass, len(tw.subs), min(len(sets), 4), tw.resub > 0, tw.refused > 0, tw.replays > 0))
    return result(sig=sig, msg=msg, digest=mon.digest, nontrivial=len(sets) >= 2 and len(tw.pubs) >= 2, counters=counters,
                  sim_s=mon.last_time_ns / 1e9, deliveries=mon.seq, klass=klass, state=state)


# --------------------------------------------------------------------------
# event log + consumer group
# --------------------------------------------------------------------------

class GMember(Entity):
    def __init__(self, name, idx, lw):
        super().__init__(name)
        self.idx, self.lw = idx, lw
        self.polled = {}      # pid -> next offset after the last poll
        self.mine = {}        # pid -> greatest offset this member committed
        self.saved = {}
        self.last_map = {}

    def handle_event(self, ev):
        op = ev.context["metadata"]["op"]
        lw, g, k = self.lw, self.lw.group, op["kind"]
        if k == "join":
            parts = yield from g.join(self.name, self)
            if sorted(parts) != parts or len(set(parts)) != len(parts) or any(not 0 <= p < lw.nparts for p in parts):
                raise Violation("C19/rebalance-partition/ConsumerGroup/join-reply-not-a-partition-list", f"{self.name}: {parts}")
            lw.joined += 1
        elif k == "leave":
            yield from g.leave(self.name)
        elif k == "poll":
            gen0 = g.generation
            floor = dict(g._committed_offsets.get(self.name, {}))   # committed offsets only grow: a later poll starts >= these
            recs = yield from g.poll(self.name, max_records=int(op.get("max", 10)))
            snap = lw.poll_reply_owner.pop(id(recs), None)
            if snap is not None and snap[0] is recs:
                _, gen_r, owned, at = snap
                foreign = sorted({r.partition for r in recs} - set(owned))
                if foreign:
                    raise Violation("C19/rebalance-partition/ConsumerGroup/poll-hands-out-records-of-a-partition-the-poller-no-longer-owns",
                                    f"{self.name} polled; when the reply was computed at {at}ns (generation {gen_r}) it owned "
                                    f"{owned}, but the reply carries records of partition(s) {foreign} which belong to "
                                    f"{ {p: [n for n, ps in g.assignments.items() if p in ps] for p in foreign} } now")
            for r in recs:
                if r.offset < floor.get(r.partition, 0):
                    raise Violation("C19/committed-offsets-monotonic/ConsumerGroup/record-below-committed-offset-handed-out-again",
                                    f"{self.name} had committed offset {floor[r.partition]} for partition {r.partition} before "
                                    f"polling, and the poll handed out offset {r.offset} again")
            if any(v > 0 for v in floor.values()) and recs:
                lw.polls_after_commit += 1
            if g.generation != gen0:
                lw.churn_during_poll += 1
            lw.check_records(recs, f"poll by {self.name}", "ConsumerGroup", int(op.get("max", 10)), per_partition=True)
            for r in recs:
                self.polled[r.partition] = max(self.polled.get(r.partition, 0), r.offset + 1)
            if recs:
                lw.polled_records += len(recs)
        elif k == "commit":
            how = op.get("how", "polled")
            mask = int(op.get("mask", 0))
            if how == "polled":
                offs = {p: o for p, o in sorted(self.polled.items()) if o >= self.mine.get(p, 0)}
            elif how == "rewind":
                offs = {p: max(0, o - int(op.get("k", 1))) for p, o in sorted(self.mine.items())}
            elif how == "mixed":      # one map: some partitions advance (polled position), others are stale (rewound)
                offs = {}
                for p in sorted(set(self.polled) | set(self.mine)):
                    if (mask >> p) & 1:
                        offs[p] = max(0, self.mine.get(p, self.polled.get(p, 0)) - int(op.get("k", 1)))
                    elif p in self.polled:
                        offs[p] = self.polled[p]
            elif how == "saved":      # a map assembled at an earlier commit is sent (again) later: partially stale by now
                offs = dict(self.saved) if self.saved else dict(sorted(self.polled.items()))
                self.saved = dict(sorted(self.polled.items()))
            elif how == "dup":        # duplicated commit message
                offs = dict(self.last_map)
            elif how == "map":        # explicit multi-partition map
                offs = {int(p) % lw.nparts: int(o) for p, o in (op.get("map") or []) if isinstance(o, int) and o >= 0}
            else:
                offs = {int(op.get("pid", 0)) % lw.nparts: int(op.get("off", 0))}
            if offs:
                adv = [p for p, o in offs.items() if o > self.mine.get(p, 0)]
                stale = [p for p, o in offs.items() if o < self.mine.get(p, 0)]
                if adv and stale:
                    lw.partially_stale_commits += 1
                for p, o in offs.items():
                    self.mine[p] = max(self.mine.get(p, 0), o)
                self.last_map = dict(offs)
                yield from g.commit(self.name, offs)
        return None


class LogClient(Entity):
    def __init__(self, lw):
        super().__init__("logclient")
        self.lw = lw

    def handle_event(self, ev):
        op = ev.context["metadata"]["op"]
        lw = self.lw
        if op["kind"] == "append":
            val = lw.next_val
            lw.next_val += 1
            rec = yield from lw.log.append(str(op["key"]), val)
            lw.check_append(rec, str(op["key"]), val)
        else:
            pid, off, mx = int(op.get("pid", 0)) % lw.nparts, int(op.get("off", 0)), int(op.get("max", 10))
            recs = yield from lw.log.read(pid, off, mx)
            if any(r.partition != pid for r in recs):
                raise Violation("C19/offsets-gap-free/EventLog/read-returned-other-partition", f"read({pid}) -> {recs[:3]}")
            lw.check_records(recs, f"read(p{pid}, offset={off})", "EventLog", mx, per_partition=False, min_offset=off)
        return None


class LogWorld:
    def __init__(self, sc):
        self.sc = sc
        self.nparts = sc.get("partitions", 1)
        nm = sc.get("n_members", 1)
        if not (isinstance(self.nparts, int) and 1 <= self.nparts <= 8 and isinstance(nm, int) and 1 <= nm <= 6):
            raise InvalidScenario("sizes")
        ret = sc.get("retention")
        pol = None
        if ret:
            if ret.get("kind") == "time" and _num(ret.get("age", 0)) >= 1e-3:
                pol = TimeRetention(max_age_s=float(ret["age"]))
            elif ret.get("kind") == "size" and isinstance(ret.get("max"), int) and ret["max"] > 0:
                pol = SizeRetention(max_records=ret["max"])
            else:
                raise InvalidScenario("retention")
        ri = _num(sc.get("retention_interval", 0.05))
        if ri < 0.002:
            raise InvalidScenario("retention_interval")
        self.log = EventLog("log", num_partitions=self.nparts, retention_policy=pol,
                            append_latency=_lat(sc.get("append_latency", 0.001)),
                            read_latency=_lat(sc.get("read_latency", 0.0005)), retention_check_interval=ri)
        strat = {"range": RangeAssignment, "roundrobin": RoundRobinAssignment, "sticky": StickyAssignment}.get(sc.get("strategy"))
        if strat is None:
            raise InvalidScenario("strategy")
        self.strategy_name = strat.__name__
        self.group = ConsumerGroup("group", event_log=self.log, assignment_strategy=strat(),
                                   rebalance_delay=_lat(sc.get("rebalance_delay", 0.01)),
                                   poll_latency=_lat(sc.get("poll_latency", 0.001)))
        self.members = [GMember(f"m{i}", i, self) for i in range(nm)]
        self.client = LogClient(self)
        self.next_val = 0
        self.table = {}                 # (pid, offset) -> (key, value)
        self.hw = [0] * self.nparts
        self.first_kept = [0] * self.nparts
        self.key_part = {}
        self.committed = {}
        self.gen_seen = 0
        self.rdelay_ns = int(_lat(sc.get("rebalance_delay", 0.01)) * 1e9)
        self.rebalance_due = 0
        self.membership_dirty = False
        self.last_change = None
        self.bounces = self.quiescent_checks = 0
        self.partially_stale_commits = self.polls_after_commit = 0
        self.poll_reply_owner = {}       # id(reply list) -> (list, generation, partitions owned by the poller, instant)
        self.poll_lat_ns = int(_lat(sc.get("poll_latency", 0.001)) * 1e9)
        self.last_rebalance_ns = 0
        self.poll_straddles_rebalance = 0
        self.rebalances_multi = 0
        self.joined = self.churn_during_poll = self.polled_records = self.commit_smaller = self.expired = 0

    # -- log oracles -------------------------------------------------------
    def scan(self, ev, mon):
        for p in self.log.partitions:
            pid = p.id
            recs = p.records
            if p.high_watermark < self.hw[pid]:
                raise Violation("C19/offsets-gap-free/EventLog/high-watermark-decreased", f"p{pid}: {self.hw[pid]} -> {p.high_watermark}")
            if p.high_watermark > self.hw[pid]:
                new = recs[max(0, len(recs) - (p.high_watermark - self.hw[pid])):] if recs else []
                exp = self.hw[pid]
                for r in new:
                    if r.offset != exp or r.partition != pid:
                        raise Violation("C19/offsets-gap-free/EventLog/appended-offset-not-next",
                                        f"p{pid}: expected offset {exp}, record has offset {r.offset} partition {r.partition}")
                    self.table[(pid, exp)] = (r.key, r.value)
                    if self.key_part.setdefault(r.key, pid) != pid:
                        raise Violation("C19/key-partition-stable/EventLog/same-key-two-partitions",
                                        f"key {r.key!r} went to p{self.key_part[r.key]} and p{pid}")
                    exp += 1
                if exp != p.high_watermark:
                    raise Violation("C19/offsets-gap-free/EventLog/high-watermark-skips-offsets",
                                    f"p{pid}: high watermark {p.high_watermark} but records end at {exp}")
                self.hw[pid] = p.high_watermark
            if recs:
                if recs[-1].offset != p.high_watermark - 1 or any(
                        recs[j + 1].offset != recs[j].offset + 1 for j in range(len(recs) - 1)):
                    raise Violation("C19/offsets-gap-free/EventLog/stored-offsets-not-consecutive",
                                    f"p{pid}: stored offsets {[r.offset for r in recs][:12]} hw={p.high_watermark}")
                if recs[0].offset > self.first_kept[pid]:
                    self.expired += recs[0].offset - self.first_kept[pid]
                    self.first_kept[pid] = recs[0].offset
            elif p.high_watermark > self.first_kept[pid]:
                self.expired += p.high_watermark - self.first_kept[pid]
                self.first_kept[pid] = p.high_watermark
        g = self.group
        now = ev.time.nanoseconds
        if ev.target is g and ev.event_type == "Poll" and isinstance(ev, ProcessContinuation):
            # the poll reply is computed (and its future resolved) in this event: the poller's partitions right now
            name = ev.context.get("consumer_name")
            fut = ev.context.get("reply_future")
            if fut is not None and fut.is_resolved:
                recs = fut.value        # the very list object the poller will receive
                self.poll_reply_owner[id(recs)] = (recs, g.generation, list(g.assignments.get(name, [])), now)
            if now - self.last_rebalance_ns <= self.poll_lat_ns and self.last_rebalance_ns > 0:
                self.poll_straddles_rebalance += 1
        if ev.target is g and ev.event_type in ("Join", "Leave") and not isinstance(ev, ProcessContinuation):
            self.rebalance_due = max(self.rebalance_due, now + self.rdelay_ns + US)
            self.membership_dirty = True
            name = ev.context.get("consumer_name")
            if self.last_change and self.last_change[0] == name and self.last_change[1] != ev.event_type \
                    and now - self.last_change[2] <= self.rdelay_ns:
                self.bounces += 1
            self.last_change = (name, ev.event_type, now)
        if g.generation != self.gen_seen:
            self.gen_seen = g.generation
            self.last_rebalance_ns = now
            self.check_assignment()
        if self.membership_dirty and now > self.rebalance_due:
            # every rebalance that was requested has run: the assignment must partition the partition set
            self.membership_dirty = False
            self.quiescent_checks += 1
            self.check_assignment("-at-quiescence")
        for name, offs in g._committed_offsets.items():
            mine = self.committed.setdefault(name, {})
            prev = dict(mine)
            for pid, off in offs.items():
                old = mine.get(pid)
                if old is not None and off < old:
                    cm = ev.context.get("offsets") if ev.event_type == "Commit" else None
                    partial = isinstance(cm, dict) and any(offs.get(q, 0) > prev.get(q, 0) for q in cm if q != pid)
                    d = ("partially-stale-multi-partition-commit-moves-a-committed-offset-back" if partial
                         else "commit-of-smaller-offset-moves-committed-offset-back")
                    raise Violation(f"C19/committed-offsets-monotonic/ConsumerGroup/{d}",
                                    f"{name} partition {pid}: committed offset went {old} -> {off} (during {ev.event_type}"
                                    + (f" of {cm}" if cm else "") + ")")
                mine[pid] = off

    def check_assignment(self, when=""):
        g = self.group
        members = g.consumers
        asg = g.assignments
        if not members:
            if any(asg.values()):
                raise Violation("C19/rebalance-partition/ConsumerGroup/partitions-assigned-with-no-members", f"{asg}")
            return
        if len(members) >= 2:
            self.rebalances_multi += 1
        owners = collections.Counter(p for ps in asg.values() for p in ps)
        alien = sorted(set(asg) - set(members))
        strat = self.strategy_name
        if alien and any(asg[a] for a in alien):
            raise Violation(f"C19/rebalance-partition/ConsumerGroup/{strat}-assigns-to-non-member", f"generation {g.generation}: {asg}, members {members}")
        missing = [p for p in range(self.nparts) if owners.get(p, 0) == 0]
        dup = [p for p in range(self.nparts) if owners.get(p, 0) > 1]
        extra = [p for p in owners if not 0 <= p < self.nparts]
        if missing or dup or extra:
            d = "partition-unowned" if missing else "partition-owned-twice" if dup else "unknown-partition"
            raise Violation(f"C19/rebalance-partition/ConsumerGroup/{strat}-{d}{when}",
                            f"generation {g.generation}, members {members}: assignment {asg} (unowned {missing}, twice {dup}, unknown {extra})")

    def check_append(self, rec, key, val):
        if rec.key != key or rec.value != val or self.table.get((rec.partition, rec.offset)) != (key, val):
            raise Violation("C19/offsets-gap-free/EventLog/append-reply-differs-from-stored-record",
                            f"append({key!r},{val}) -> {rec}; stored {self.table.get((rec.partition, rec.offset))}")

    def check_records(self, recs, what, cls, mx, per_partition, min_offset=None):
        if len(recs) > mx:
            raise Violation(f"C19/offsets-gap-free/{cls}/more-records-than-requested", f"{what}: {len(recs)} > {mx}")
        last = {}
        seen_parts = []
        for r in recs:
            if self.table.get((r.partition, r.offset)) != (r.key, r.value):
                raise Violation(f"C19/offsets-gap-free/{cls}/returned-record-differs-from-appended",
                                f"{what}: {r} vs appended {self.table.get((r.partition, r.offset))}")
            if r.partition in last:
                if seen_parts[-1] != r.partition or r.offset != last[r.partition] + 1:
                    raise Violation(f"C19/offsets-gap-free/{cls}/returned-offsets-not-consecutive",
                                    f"{what}: partition {r.partition} offset {r.offset} after {last[r.partition]}")
            else:
                seen_parts.append(r.partition)
                if min_offset is not None and r.offset < min_offset:
                    raise Violation(f"C19/offsets-gap-free/{cls}/returned-offset-below-requested", f"{what}: got offset {r.offset}")
                # first_kept only grows, so a correct read can never start above max(requested, oldest retained now)
                if min_offset is not None and r.offset > max(min_offset, self.first_kept[r.partition]):
                    raise Violation(f"C19/offsets-gap-free/{cls}/read-skips-retained-records",
                                    f"{what}: first returned offset {r.offset}, oldest retained {self.first_kept[r.partition]}")
            last[r.partition] = r.offset


def run_log(sc):
    seed_globals(sc.get("seed", 0))
    lw = LogWorld(sc)
    horizon = _num(sc.get("horizon", 1.0))
    if horizon < 0.01:
        raise InvalidScenario("horizon")
    sim = Simulation(entities=[lw.log, lw.group, lw.client] + lw.members, end_time=Instant.from_seconds(horizon))
    fd = FaultDriver(None, lw.members, {}, list(sc.get("faults") or []))
    evs = fd.events()
    for op in sc.get("ops") or []:
        who, k = op.get("who"), op.get("kind")
        if who in ("producer", "reader"):
            if k not in ("append", "read") or (k == "append" and "key" not in op):
                raise InvalidScenario("client op")
            tgt = lw.client
        elif isinstance(who, int) and 0 <= who < len(lw.members) and k in ("join", "leave", "poll", "commit"):
            tgt = lw.members[who]
            if k == "poll" and (not isinstance(op.get("max", 10), int) or op.get("max", 10) < 1):
                raise InvalidScenario("max")
        else:
            raise InvalidScenario("op")
        if k == "read" and (not isinstance(op.get("max", 10), int) or op.get("max", 10) < 1 or op.get("off", 0) < 0):
            raise InvalidScenario("read")
        if k == "commit" and op.get("how") == "fixed" and (not isinstance(op.get("off", 0), int) or op.get("off", 0) < 0):
            raise InvalidScenario("commit")
        if op.get("t", 0) != 0 and _num(op.get("t", 0)) < 1e-4:
            raise InvalidScenario("op time")
        evs.append(Event(time=_at(op.get("t", 0)), event_type="gop", target=tgt, context={"metadata": {"op": op}}))
    sim.schedule(evs)
    mon = Monitor(sim, cap=60_000, invariant=lw.scan)
    status, payload = run_sim(sim)
    sig, msg = _finish(status, payload, lambda: None)
    smaller = 0
    for m in lw.members:
        for op in sc.get("ops") or []:
            if op.get("who") == m.idx and op.get("kind") == "commit" and op.get("how") in ("rewind", "fixed"):
                smaller = 1
    counters = {"probe.l_rebalance_multi": int(lw.rebalances_multi > 0), "probe.l_retention_expired": int(lw.expired > 0),
                "probe.l_commit_smaller": smaller, "probe.l_churn_during_poll": int(lw.churn_during_poll > 0),
                "probe.l_bounce_inside_rebalance_delay": int(lw.bounces > 0),
                "probe.l_poll_reply_within_poll_latency_after_rebalance": int(lw.poll_straddles_rebalance > 0),
                "probe.l_partially_stale_multi_partition_commit": int(lw.partially_stale_commits > 0),
                "probe.l_poll_after_commit_returns_records": int(lw.polls_after_commit > 0),
                "probe.l_assignment_checked_at_quiescence": int(lw.quiescent_checks > 0),
                "l_appends": sum(lw.hw), "l_polled_records": lw.polled_records, "l_rebalances": lw.group.stats.rebalances,
                "budget_runs": int(status == "budget")}
    counters.update(fd.counters())
    klass = f"log/{sc.get('mode')}/{sc.get('strategy')}"
    state = repr((klass, lw.nparts, len(lw.members), min(lw.rebalances_multi, 4), lw.expired > 0, lw.churn_during_poll > 0,
                  (sc.get("retention") or {}).get("kind"), min(lw.polled_records // 10, 4)))
    return result(sig=sig, msg=msg, digest=mon.digest, nontrivial=lw.rebalances_multi >= 1 and lw.polled_records >= 1,
                  counters=counters, sim_s=mon.last_time_ns / 1e9, deliveries=mon.seq, klass=klass, state=state)


def run(sc):
    k = sc.get("klass")
    if k == "queue":
        return run_queue(sc)
    if k == "topic":
        return run_topic(sc)
    if k == "log":
        return run_log(sc)
    raise InvalidScenario("klass")
