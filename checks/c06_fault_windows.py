"""C06 — injected faults act exactly during their windows and isolate only their target.

System under test: the repository's own fault machinery (happysimulator/faults/*:
FaultSchedule, FaultHandle.cancel, CrashNode, PauseNode, NetworkPartition,
InjectLatency, InjectPacketLoss, ReduceCapacity) driving real Event dispatch,
ProcessContinuation, Network/NetworkLink, Server (QueuedResource) and Resource.
Generated FaultSchedules are passed to Simulation(fault_schedule=...); the kit's
own FaultDriver is NOT used here.  Model and oracle: simkit/c06_model.py.
DESIGN.md section 5 "C06".
"""
from __future__ import annotations

import hashlib

from simkit import repo

repo.activate()

from simkit.c06_model import INF, FaultWorld, validate  # noqa: E402
from simkit.rng import seed_globals  # noqa: E402
from simkit.world import Violation, result  # noqa: E402

PROPERTY = "C06"
RUNS = {"quick": 4000, "thorough": 600_000}
WALL = {"quick": 45, "thorough": 1500}
BATCH = {"quick": 25, "thorough": 200}
SELFTEST_RUNS = 8
SHRINK_SKIP = ("klass", "allow")
SHRINK_BUDGET_S = {"quick": 40.0, "thorough": 120.0}
CAP = 20_000

# scenario features that still lead to a *recorded* defect; everything else (overlapping windows of every other
# kind, generator/holder targets with processes in flight, cancel before construction, contention inside a capacity
# window) is part of the general classes since the corresponding fixes were committed (checks/c06.fixed.json)
TRIGGERS = ("server", "capbusy", "capoverlap", "qlimit")

RULE = (
    "each case is a generated probe model (1-4 node targets among plain handler / generator handler with in-flight "
    "processes / repo Server behind its queue / holder of a repo Resource, each with an identical-traffic twin; an "
    "optional 2-3 node Network plus twin Network (links added per direction or with add_bidirectional_link, plain or from "
    "the condition factories, unique or shared display names) with a tagged probe on every link every delta) and a generated repo "
    "FaultSchedule of CrashNode/PauseNode (on probe targets and on Network nodes)/NetworkPartition(sym/asym)/RandomPartition/InjectLatency/InjectPacketLoss/ReduceCapacity "
    "faults (0-10; windows disjoint, overlapping, nested, identical, adjacent, past the horizon, permanent crash; handles "
    "cancelled before construction / after construction / during the run / never) passed to Simulation(fault_schedule=); "
    "scenario classes: fault-free, general (none of the still-recorded triggers possible), only:<trigger> (exactly one of "
    "server = queue-fronted crash target, qlimit = one-at-a-time worker behind an explicit Queue+QueueDriver as crash target, capbusy = grants held at a capacity-window start, capoverlap = overlapping "
    "ReduceCapacity windows), mixed; non-trivial = at least one repo fault event fired and at least one "
    "observation (job, grant or probe) was judged strictly inside an active window; distinct = distinct delivery digests"
)
STATE_MEASURE = "distinct (key kind : multiset of fault kinds simultaneously active on one key) combinations observed at a delivery, per scenario class"
REAL = [
    "happysimulator.faults.schedule.FaultSchedule / fault.FaultHandle (add, cancel, start via Simulation.__init__)",
    "happysimulator.faults.node_faults.CrashNode, PauseNode", "happysimulator.faults.network_faults.NetworkPartition, "
    "InjectLatency, InjectPacketLoss, _CompoundLatency", "happysimulator.faults.resource_faults.ReduceCapacity",
    "happysimulator.core.event.Event.invoke / ProcessContinuation.invoke (crash check at dispatch)",
    "happysimulator.core.simulation.Simulation (instrumented loop), sim_future.SimFuture",
    "happysimulator.components.network.Network / NetworkLink (partition sets, loss, latency)",
    "happysimulator.components.server.Server = QueuedResource + Queue + QueueDriver + worker adapter",
    "happysimulator.components.resource.Resource / Grant",
]
STUBS = [
    "probe entities (PlainNode, GenNode, Holder, NetNode, Sink, Tick) with activity logs (harness)",
    "ProbeServer: repo Server subclass that only adds logging around handle_queued_event (harness)",
    "Timeline oracle: active half-open windows per key computed from the scenario alone (harness)",
    "fault-free re-run of the same scenario as the bystander reference (harness)",
]
ASSUMPTIONS = [
    "windows are exactly half-open [start, end): the repo creates every fault event while the Simulation is constructed and "
    "all judged traffic is created afterwards (scheduled after construction or emitted in-run), so by the engine's "
    "FIFO-by-creation tie rule an observation stamped t == end must see the fault gone (a job is handled, a probe delivered) "
    "and one stamped t == start must see it in effect; the only instant not judged is the link/partition/capacity state "
    "sampled right after a fault event that shares its instant with another fault edge",
    "a paused/crashed target drops the events delivered to it (the repo's documented crash semantics); 'processing "
    "resumes' is judged only on events delivered after the last covering window ended",
    "overlapping InjectLatency windows: the delay must be >= base + the largest active extra (not the sum); overlapping "
    "loss windows: rate >= the largest; overlapping ReduceCapacity windows: capacity merely < configured (weaker readings)",
    "inside a ReduceCapacity window only new grants are judged (held after the grant <= reduced capacity); grants issued "
    "before the window are not expected to be revoked; holders never ask for more than the smallest reduced capacity "
    "(Resource.acquire raising for amount > capacity is treated as documented behaviour)",
    "'back to the configured state' includes: link.latency is the configured object, packet_loss_rate equals the "
    "configured rate, Network.is_partitioned false, Resource.capacity configured, available + outstanding grants == "
    "capacity, and no waiter left waiting that the configured resource would have served (head waiter fits)",
    "links with a configured base loss > 0 are excluded from delivered/not-delivered judgement outside windows and from "
    "the fault-free comparison (they draw from the module-level random stream, whose consumption legitimately changes)",
    "cancel 'before activation' covers: before Simulation construction, after construction before run, and from an "
    "event during the run that precedes the activation instant; cancelling after activation is not specified and not generated",
    "link and sink display names are not identifiers (same_names variant gives all links one name); entities, resources and "
    "networks that faults address by name keep unique names, because with duplicates FaultContext resolves to the last "
    "registered object and the statement does not say which one is the target",
    "FaultStats.faults_activated/faults_deactivated (never incremented in the repo) are outside the statement and not judged",
]
EXPECTED_PROBES = [
    "fault.crash", "fault.restart", "fault.pause", "fault.resume", "fault.partition.activate",
    "fault.partition.deactivate", "fault.latency.activate", "fault.latency.deactivate", "fault.loss.activate",
    "fault.loss.deactivate", "fault.capacity.reduce", "fault.capacity.restore",
    "probe.qworker_item_arrived_during_down_window", "probe.qworker_served_after_restart",
    "probe.net_faulted_network_registered_second",
    "fault.random_partition.fault", "fault.random_partition.heal", "probe.random_partition_cut_observed",
    "probe.random_cycle_started_inside_scheduled_partition_window",
    "probe.message_sent_while_destination_down_handled_after_restart", "probe.message_dropped_by_down_destination",
    "probe.boundary_exact.message_arrives_at_restart_instant",
    "probe.overlap.partial", "probe.overlap.nested", "probe.overlap.identical", "probe.overlap.adjacent",
    "probe.queue_backlog_at_down_start", "probe.job_dropped_in_down_window",
    "probe.job_after_window_end", "probe.probe_dropped_by_partition", "probe.probe_dropped_by_loss",
    "probe.latency_added_observed", "probe.asym_reverse_delivered", "probe.cancel_before_construction",
    "probe.cancel_after_construction", "probe.cancel_during_run", "probe.capacity_window_with_grants_held",
    "probe.resource_waiter", "probe.permanent_crash", "probe.window_past_horizon",
    "probe.boundary_exact.activity", "probe.boundary_exact.job", "probe.boundary_exact.probe", "probe.boundary_exact.grant",
    "probe.boundary_exact.state_checked", "probe.boundary_exact.job_due_at_window_end",
    "probe.boundary_exact.job_dropped_at_window_start", "probe.boundary_exact.probe_delivered_sent_at_heal_instant",
    "probe.boundary_exact.probe_dropped_sent_at_partition_start", "probe.same_names.latency_windows_overlap_across_links",
    "probe.net_built_with_add_bidirectional_link", "probe.net_built_with_condition_factories",
    "probe.bidir.latency_windows_overlap_on_both_directions", "probe.bidir.loss_windows_overlap_on_both_directions",
    "probe.target_matches_twin_outside_windows",
    "probe.bystanders_equal_fault_free_run",
    # reachable since the fixes of checks/c06.fixed.json were committed
    "probe.inflight_process_killed_by_down_window", "probe.killed_holder_leaves_grant_outstanding",
    "probe.overlap_held.node_down_under_two_windows", "probe.overlap_held.node_still_down_after_other_window_ended",
    "probe.overlap_held.partition_after_other_window_ended", "probe.overlap_held.loss_after_other_window_ended",
    "probe.overlap_held.latency_under_two_windows", "probe.overlap_held.latency_after_other_window_ended",
    "probe.waiter_woken_by_capacity_restore", "probe.cancel_before_construction_left_no_trace",
]


# --------------------------------------------------------------------------
# generator
# --------------------------------------------------------------------------

def _pick_window(rng, end_ms, group, allow_overlap, permanent_ok):
    """-> (start_ms, end_ms|None) or None.  `group` = existing [(s, e|None)] on the same key group."""
    for _ in range(24):
        if allow_overlap and group and rng.random() < 0.65:
            s0, e0 = rng.choice(group)
            e0x = e0 if e0 is not None else end_ms
            mode = rng.choice(("nested", "identical", "adjacent", "partial", "enclosing", "adjacent-before"))
            if mode == "identical" and e0 is not None:
                s, e = s0, e0
            elif mode == "nested" and e0x - s0 >= 6:
                s = rng.randint(s0 + 1, e0x - 3)
                e = rng.randint(s + 1, e0x - 1)
            elif mode == "adjacent" and e0 is not None:
                s, e = e0, e0 + rng.randint(20, 2000)
            elif mode == "adjacent-before" and s0 > 30:
                s, e = rng.randint(max(1, s0 - 2000), s0 - 5), s0
            elif mode == "partial" and e0x - s0 >= 4:
                s = rng.randint(s0 + 1, e0x - 1)
                e = e0x + rng.randint(1, 3000)
            elif mode == "enclosing" and s0 > 5:
                s, e = rng.randint(1, s0 - 1), e0x + rng.randint(1, 2000)
            else:
                continue
        else:
            s = rng.randint(100, max(101, end_ms - 300))
            kind = rng.random()
            if kind < 0.35:
                ln = rng.randint(30, 500)
            elif kind < 0.8:
                ln = rng.randint(500, 3000)
            else:
                ln = rng.randint(1000, max(1001, end_ms // 2))
            e = s + ln
            if e >= end_ms and rng.random() < 0.8:
                e = max(s + 10, end_ms - rng.randint(50, 250))
        if permanent_ok and rng.random() < 0.2:
            e = None
        if s < 1 or (e is not None and e <= s):
            continue
        if not allow_overlap:
            ee = INF if e is None else e
            if any(s <= (INF if e1 is None else e1) + 2 and s1 <= ee + 2 for s1, e1 in group):
                continue
        return s, e
    return None


def gen(rng, tier):
    sc = {"seed": rng.getrandbits(48)}
    r = rng.random()
    if r < 0.04:
        klass, allow = "fault-free", []
    elif r < 0.54:
        klass, allow = "general", []
    elif r < 0.84:
        x = TRIGGERS[rng.randrange(len(TRIGGERS))]
        klass, allow = f"only:{x}", [x]
    else:
        allow = [x for x in TRIGGERS if rng.random() < 0.55]
        klass = "mixed"
    sc["klass"], sc["allow"] = klass, allow
    end_ms = rng.choice((3000, 5000, 8000, 12000, 20000, 40000, 60000))
    sc["end_ms"] = end_ms
    end_us = end_ms * 1000
    sc["tick_us"] = max(50_000, end_us // 25)
    # extra jobs / probes stamped exactly on window boundaries (judged: windows are exactly half-open);
    # "relay": half of them are emitted in-run by another entity some time before they are due
    sc["edge_jobs"] = rng.choice((False, False, False, True, True, "relay", "relay"))
    # display names are not identifiers: all links of both networks are called "dc", all sinks "sink"
    sc["same_names"] = rng.random() < 0.35

    # ---- nodes
    kinds = ["plain"]
    pool = ["plain", "gen", "server", "holder", "qworker"]
    for _ in range(rng.randint(0, 3)):
        kinds.append(rng.choice(pool))
    if "server" in allow and "server" not in kinds:
        kinds.append("server")
    if "qlimit" in allow and "qworker" not in kinds:
        kinds.append("qworker")
    if ("capbusy" in allow or "capoverlap" in allow) and "holder" not in kinds:
        kinds.append("holder")
    rng.shuffle(kinds)
    nodes = []
    for k in kinds:
        period = max(rng.choice((40_000, 90_000, 150_000, 300_000, 700_000)), end_us // 45)
        n = {"kind": k, "period_us": period, "phase_us": rng.randrange(1, period)}
        if k == "plain":
            n["emit_delay_us"] = rng.choice((0, 0, 1000, 30_000))
        elif k == "gen":
            n["steps"] = [[int(period * rng.choice((0.1, 0.4, 0.9, 1.7))), rng.random() < 0.5]
                          for _ in range(rng.randint(1, 3))]
        elif k == "server":
            n["service_us"] = int(period * rng.choice((0.3, 0.7, 0.95, 1.2, 1.5)))
            n["concurrency"] = rng.choice((1, 1, 2))
        elif k == "qworker":
            # explicit Queue -> QueueDriver -> worker; one-at-a-time workers only where the recorded stall is allowed
            n["service_us"] = int(period * rng.choice((0.3, 0.7, 0.95, 1.2)))
            n["limit"] = 1 if "qlimit" in allow and rng.random() < 0.75 else 0
        else:
            n["cap"] = rng.choice((4, 8, 10, 12))
            n["co_period_us"] = max(rng.choice((60_000, 130_000, 400_000)), end_us // 45)
            n["co_phase_us"] = rng.randrange(1, n["co_period_us"])
        nodes.append(n)
    sc["nodes"] = nodes

    # ---- network
    net = None
    if rng.random() < 0.75:
        nn = rng.choice((2, 3, 3, 4))
        bidir = rng.random() < 0.45      # built with Network.add_bidirectional_link (reverse = shallow copy)

        def params():
            d = {"base_us": rng.choice((500, 2000, 10_000, 40_000, 80_000)), "loss": 0.25 if rng.random() < 0.08 else 0.0}
            if rng.random() < 0.4:       # the Network module's condition factories
                if d["loss"] > 0:
                    d["factory"] = "lossy"
                else:
                    d["factory"] = rng.choice(("datacenter", "local", "slow"))
                    d["base_us"] = {"datacenter": 600, "local": 100}.get(d["factory"], d["base_us"])
            return d

        links = []
        for a in range(nn):
            for b in range(nn):
                if a == b or (bidir and a > b):
                    continue
                if rng.random() < 0.9 or not links:
                    p = params()
                    links.append({"a": a, "b": b, **p})
                    if bidir:
                        links.append({"a": b, "b": a, **p})
        net = {"n": nn, "bidir": bidir, "twin_first": rng.random() < 0.4, "delta_us": max(50_000, end_us // rng.choice((15, 20, 30))),
               "phase_us": rng.randrange(1, 50_000), "links": links}
    sc["net"] = net

    # ---- faults
    node_targets = [i for i, n in enumerate(nodes) if n["kind"] != "server" or "server" in allow]
    holders = [i for i, n in enumerate(nodes) if n["kind"] == "holder"]
    kinds_avail = []
    if node_targets:
        kinds_avail += ["crash", "pause", "crash", "pause"]
    if net is not None:
        # "ncrash"/"npause": CrashNode/PauseNode on a node of the Network (messages in flight across the edges)
        kinds_avail += ["partition", "latency", "loss", "ncrash", "npause"]
    if holders:
        kinds_avail += ["capacity", "capacity"]
    only = klass[5:] if klass.startswith("only:") else None
    faults = []
    groups: dict = {}
    n_f = 0 if klass == "fault-free" else rng.randint(1, 10)
    for j in range(n_f):
        k = rng.choice(kinds_avail)
        if faults and rng.random() < 0.35:
            k = rng.choice(faults)["kind"]      # same kind again: makes overlapping windows on one key likely
        elif only in ("capbusy", "capoverlap") and rng.random() < 0.6:
            k = "capacity"
        pair = None
        if faults and faults[-1]["kind"] in ("latency", "loss") and len(net["links"]) > 1 \
                and (sc["same_names"] or net["bidir"]) and rng.random() < 0.6:
            # same kind on a *different* link with an overlapping window: a namesake link, or the reverse
            # direction of the same pair (links must not share fault state)
            pair = faults[-1]
            k = pair["kind"]
        netnode = None
        if k in ("ncrash", "npause"):
            netnode = rng.randrange(net["n"])
            k = k[1:]
        f = {"kind": k}
        allow_overlap = k != "capacity" or "capoverlap" in allow
        if netnode is not None or (k in ("crash", "pause") and not node_targets):
            f["netnode"] = netnode if netnode is not None else rng.randrange(net["n"])
            g = ("nnode", f["netnode"])
        elif k in ("crash", "pause"):
            pref = [i for i in node_targets if nodes[i]["kind"] == "server"] if only == "server" else \
                [i for i in node_targets if nodes[i]["kind"] == "qworker"] if only == "qlimit" else \
                [x["node"] for x in faults if x["kind"] in ("crash", "pause") and "node" in x]
            f["node"] = rng.choice(pref if pref and rng.random() < (0.8 if only in ("server", "qlimit") else 0.5) else node_targets)
            g = ("node", f["node"])
        elif k == "capacity":
            same = [x["node"] for x in faults if x["kind"] == "capacity"]
            f["node"] = rng.choice(same if same and "capoverlap" in allow and rng.random() < 0.7 else holders)
            f["factor"] = rng.choice((0.25, 0.5, 0.5, 0.75, 0.3, 0.6, 0.9))
            g = ("cap", f["node"])
        elif k == "partition":
            ids = list(range(net["n"]))
            rng.shuffle(ids)
            cut = rng.randint(1, len(ids) - 1)
            a, b = ids[:cut], ids[cut:]
            if len(b) > 1 and rng.random() < 0.4:
                b = b[:1]
            f["a"], f["b"], f["asym"] = sorted(a), sorted(b), rng.random() < 0.35
            f["named"] = rng.random() < 0.5
            g = ("part",)
        else:
            l = rng.choice(net["links"])
            if pair is not None:
                rev = [x for x in net["links"] if [x["b"], x["a"]] == pair["link"]]
                if rev and (net["bidir"] or not sc["same_names"]) and rng.random() < 0.7:
                    l = rev[0]
                else:
                    l = rng.choice([x for x in net["links"] if [x["a"], x["b"]] != pair["link"]])
            elif allow_overlap and faults and rng.random() < 0.6:
                same = [x for x in faults if x["kind"] == k]
                if same:
                    l = {"a": same[0]["link"][0], "b": same[0]["link"][1]}
            f["link"] = [l["a"], l["b"]]
            f["named"] = rng.random() < 0.5
            if k == "latency":
                f["extra_ms"] = rng.choice((1, 5, 20, 100, 500))
            else:
                f["rate"] = rng.choice((1.0, 1.0, 1.0, 0.5))
            g = (k, l["a"], l["b"])
        grp = groups.get(g, [])
        if pair is not None:
            grp = [(pair["start_ms"], pair["end_ms"])] * 4 + grp   # overlap the namesake link's window
        win = _pick_window(rng, end_ms, grp, allow_overlap, permanent_ok=(k == "crash"))
        if win is None:
            continue
        f["start_ms"], f["end_ms"] = win
        groups.setdefault(g, []).append(win)
        c = rng.random()
        if c < 0.74:
            f["cancel"] = "never"
        else:
            f["cancel"] = rng.choice(("pre", "post", "mid"))
            if f["cancel"] == "mid":
                f["cancel_ms"] = rng.randint(0, f["start_ms"] - 1)
        faults.append(f)
    if net is not None and net["n"] >= 3 and klass != "fault-free" and rng.random() < 0.3:
        # Jepsen-style RandomPartition over a strict subset of the nodes, together with a long scheduled
        # NetworkPartition on the same network: random cycles start while the scheduled window is open
        ids = list(range(net["n"]))
        rng.shuffle(ids)
        inside = sorted(ids[:rng.randint(2, net["n"] - 1)])
        faults.append({"kind": "randpart", "nodes": inside, "mtbf_ms": rng.choice((200, 600, 1500, 4000)),
                       "mttr_ms": rng.choice((100, 400, 1500)), "rseed": rng.getrandbits(30), "named": rng.random() < 0.5,
                       "cancel": rng.choice(("never", "never", "never", "never", "pre", "post"))})
        if rng.random() < 0.75:
            out = [x for x in ids if x not in inside]
            a = [rng.choice(out)]
            b = [rng.choice([x for x in ids if x != a[0]])]
            s0 = rng.randint(100, max(101, end_ms // 3))
            faults.append({"kind": "partition", "a": a, "b": b, "asym": rng.random() < 0.3, "named": rng.random() < 0.5,
                           "start_ms": s0, "end_ms": rng.randint(max(s0 + 50, 2 * end_ms // 3), end_ms - 50),
                           "cancel": "never"})
    if "capbusy" not in allow:
        # a crashed holder's process dies holding its grant (documented crash semantics): that is "grants held at a
        # capacity-window start" by another route, so a holder gets node faults or capacity faults, not both
        for i in holders:
            if any(f["kind"] == "capacity" and f["node"] == i for f in faults) and \
                    any(f["kind"] in ("crash", "pause") and f.get("node") == i for f in faults):
                drop = ("capacity",) if rng.random() < 0.5 else ("crash", "pause")
                faults[:] = [f for f in faults if not (f["kind"] in drop and f.get("node") == i)]
    sc["faults"] = faults

    # ---- holder parameters depend on the capacity faults (amounts never exceed the smallest reduced capacity)
    for i in holders:
        n = nodes[i]
        cf = [f for f in faults if f["kind"] == "capacity" and f["node"] == i]
        minf = min([f["factor"] for f in cf], default=1.0)
        lim = max(1, int(n["cap"] * minf))
        if "capbusy" in allow:
            n["amount"] = rng.randint(1, lim)
            n["co_amount"] = rng.randint(1, lim)
            n["hold_us"] = int(n["period_us"] * rng.choice((0.4, 0.9, 1.6, 2.5)))
            n["co_hold_us"] = int(n["co_period_us"] * rng.choice((0.4, 0.9, 1.6)))
        else:
            # avoidance: nothing is ever held at a window start and nobody ever waits
            wait_regime = rng.random() < 0.5 and len(cf) == 1   # one window: its backlog cannot reach another window's start
            if lim < 2 and not wait_regime:
                for f in cf:
                    faults.remove(f)
                cf, lim = [], n["cap"]
            if wait_regime and cf and n["cap"] - lim >= 1:
                # nothing held at a window start, but inside the window the two holders do not fit together
                n["amount"] = lim
                n["co_amount"] = rng.randint(1, min(lim, n["cap"] - lim))
                fr = (0.5, 0.8)
            else:
                n["amount"] = rng.randint(1, lim // 2)
                n["co_amount"] = rng.randint(1, lim - lim // 2)
                fr = (0.2, 0.5, 0.8)
            n["hold_us"] = int(n["period_us"] * rng.choice(fr))
            n["co_hold_us"] = int(n["co_period_us"] * rng.choice(fr))
            guard_ms = max(n["hold_us"], n["co_hold_us"]) // 1000 + 2
            n["skip"] = [[max(0, f["start_ms"] - guard_ms), f["start_ms"] + 1] for f in cf]
    return sc


# --------------------------------------------------------------------------
# run
# --------------------------------------------------------------------------

def _static_probes(w: FaultWorld, c: dict) -> None:
    for key, ws in w.tl.w.items():
        for i, a in enumerate(ws):
            if a[1] >= INF:
                c["probe.permanent_crash"] = 1
            elif a[1] > w.end_ns:
                c["probe.window_past_horizon"] = 1
            for b in ws[i + 1:]:
                if a[2] == b[2]:
                    continue
                if (a[0], a[1]) == (b[0], b[1]):
                    c["probe.overlap.identical"] = 1
                elif a[1] == b[0] or b[1] == a[0]:
                    c["probe.overlap.adjacent"] = 1
                elif (a[0] <= b[0] and b[1] <= a[1]) or (b[0] <= a[0] and a[1] <= b[1]):
                    c["probe.overlap.nested"] = 1
                elif a[0] < b[1] and b[0] < a[1]:
                    c["probe.overlap.partial"] = 1
    for name, ent in w.node_ent.items():
        key = ("node", name)
        if not w.tl.has(key):
            continue
        kind = w.node_kind[name]
        lg = w.logs.get(name, ())
        for s, e, *_ in w.tl.w[key]:
            if kind in ("gen", "holder"):
                first, last = {}, {}
                for t, what, m in lg:
                    mm = m[0] if isinstance(m, list) else m
                    first.setdefault(mm, t)
                    last[mm] = t
                done = {(m[0] if isinstance(m, list) else m) for t, what, m in lg
                        if what == "emit" and (kind == "holder" or (isinstance(m, list) and m[1] == "end"))}
                span = (sum(x[0] for x in ent.steps) if kind == "gen" else int(ent.hold_s * 1e6)) * 1000
                for m in first:
                    if first[m] < s and m not in done and first[m] + span > s and not w.tl.is_boundary(key, first[m]):
                        # entered before the window, never finished: the process died with its node
                        c["probe.inflight_process_killed_by_down_window"] = 1
                        if kind == "holder" and w.held(ent.res.name) > 0:
                            c["probe.killed_holder_leaves_grant_outstanding"] = 1
        for s, e, *_ in w.tl.w[key]:
            if kind == "server":
                accepted = sum(1 for m, t in w.job_times[name].items() if t < s and not w.tl.active(key, t))
                entered = sum(1 for t, what, m in lg if what == "enter" and t < s)
                if accepted - entered >= 1:
                    c["probe.queue_backlog_at_down_start"] = 1


def _same_name_probes(w: FaultWorld, c: dict) -> None:
    if not w.sc.get("same_names"):
        return
    for kind in ("lat", "loss"):
        keys = [k for k in w.tl.w if k[0] == kind]
        for i, k1 in enumerate(keys):
            for k2 in keys[i + 1:]:
                if any(a[0] < b[1] and b[0] < a[1] for a in w.tl.w[k1] for b in w.tl.w[k2]):
                    c["probe.same_names.latency_windows_overlap_across_links" if kind == "lat"
                      else "probe.same_names.loss_windows_overlap_across_links"] = 1


def _bidir_probes(w: FaultWorld, c: dict) -> None:
    net = w.sc.get("net")
    if not net:
        return
    if net.get("twin_first") and any(k[0] in ("part", "lat", "loss") for k in w.tl.w):
        c["probe.net_faulted_network_registered_second"] = 1
    if any(l.get("factory") for l in net["links"]):
        c["probe.net_built_with_condition_factories"] = 1
    if not net.get("bidir"):
        return
    c["probe.net_built_with_add_bidirectional_link"] = 1
    for kind in ("lat", "loss"):
        for k1 in [k for k in w.tl.w if k[0] == kind]:
            k2 = (kind, k1[1], k1[3], k1[2])
            if k1[2] < k1[3] and k2 in w.tl.w and any(a[0] < b[1] and b[0] < a[1] for a in w.tl.w[k1] for b in w.tl.w[k2]):
                c[f"probe.bidir.{'latency' if kind == 'lat' else 'loss'}_windows_overlap_on_both_directions"] = 1


def _restore_probes(w: FaultWorld, c: dict) -> None:
    for key, ws in w.tl.w.items():
        if key[0] != "cap":
            continue
        ends = {x[1] for x in ws}
        idx = key[1][2:]
        for name in (f"t{idx}", f"ct{idx}"):
            ent_t = {m: t for t, what, m in w.logs.get(name, ()) if what == "enter"}
            for t, what, m in w.logs.get(name, ()):
                if what == "resume" and isinstance(m, list) and m[1] == "acq" and t in ends and ent_t.get(m[0], t) < t:
                    c["probe.waiter_woken_by_capacity_restore"] = 1


def _bystander_category(w: FaultWorld, name: str) -> str:
    if name.startswith("netb:"):
        return "twin-network"
    if name.startswith("net:"):
        return "untouched-link"
    base = name.lstrip("sc")
    side, idx = base[0], int(base[1:])
    kind = w.sc["nodes"][idx]["kind"]
    return ("twin-" if side == "b" else "untargeted-") + kind


def run(sc):
    validate(sc)
    seed_globals(sc["seed"])
    klass = sc.get("klass", "replay")
    try:
        w = FaultWorld(sc, True)
    except Violation as v:
        return result(sig=v.sig, msg=v.msg, klass=klass)
    status, payload = w.run(cap=CAP)
    sig, msg = None, ""
    deliveries = w.mon.seq
    if status == "violation":
        sig, msg = payload.sig, payload.msg
    elif status == "ok":
        try:
            w.post_checks()
        except Violation as v:
            sig, msg = v.sig, v.msg
    counters = dict(w.c)
    counters[f"status.{status}"] = 1
    fired = sum(v for k, v in w.c.items() if k.startswith("fault."))
    if status == "ok" and sig is None and sc["faults"]:
        # (i) bystanders: identical to a fault-free run of the same scenario and seed
        seed_globals(sc["seed"])
        w0 = FaultWorld(sc, False)
        st0, p0 = w0.run(cap=CAP)
        if st0 != "ok":
            raise RuntimeError(f"fault-free reference run did not complete: {st0} {p0}")
        w0.post_checks()
        deliveries += w0.mon.seq
        for name in w.bystander_names():
            # both runs have the same explicit end_time; the engine may deliver ONE event past it, and which event
            # that is differs legitimately between the runs, so logs are compared up to end_time only
            a = [x for x in w.logs.get(name, []) if x[0] <= w.sim_end_ns]
            b = [x for x in w0.logs.get(name, []) if x[0] <= w0.sim_end_ns]
            if a != b:
                k = next((i for i, (x, y) in enumerate(zip(a, b)) if x != y), min(len(a), len(b)))
                sig = f"C06/bystander-affected/{_bystander_category(w, name)}/log-differs-from-fault-free-run"
                msg = (f"log of bystander {name} differs from the fault-free run of the same seed at entry {k}: "
                       f"{a[k] if k < len(a) else None} vs {b[k] if k < len(b) else None} (lengths {len(a)}/{len(b)})")
                break
        else:
            counters["probe.bystanders_equal_fault_free_run"] = 1
    _static_probes(w, counters)
    _restore_probes(w, counters)
    _same_name_probes(w, counters)
    _bidir_probes(w, counters)
    if status == "ok" and sig is None and any(f.get("cancel") == "pre" for f in sc["faults"]):
        counters["probe.cancel_before_construction_left_no_trace"] = 1
    h = hashlib.blake2b(digest_size=12)
    h.update(w.mon.digest.encode())
    h.update(w.log_digest().encode())
    return result(
        sig=sig, msg=msg, digest=h.hexdigest(),
        nontrivial=fired >= 1 and w.judged_in_window >= 1,
        counters=counters, sim_s=w.now_ns() / 1e9, deliveries=deliveries, klass=klass,
        state=sorted(f"{klass}|{s}" for s in w.states),
    )
