"""C02 — generator processes and futures resume at the right instant, value, once.

Generated process/future programs run on the real engine and on an independent
reference interpreter (declarative future trees, sorted list); per-process resume
logs, completion-hook calls and side-effect delivery times are compared.
DESIGN.md section 5 C02.
"""
from __future__ import annotations

import hashlib

from simkit import repo

repo.activate()

from happysimulator.core.simulation import Simulation  # noqa: E402
from happysimulator.core.temporal import Instant  # noqa: E402

from simkit import procprog  # noqa: E402
from simkit.world import repo_exception_sig, result  # noqa: E402

PROPERTY = "C02"
RUNS = {"quick": 20_000, "thorough": 20_000_000}
WALL = {"quick": 50, "thorough": 1500}
BATCH = {"quick": 250, "thorough": 2000}
CPU_LIMIT_S = 30          # a generated program is a few hundred deliveries: milliseconds of CPU
TIMEOUT_SIG = "run-does-not-terminate"
RULE = (
    "each case is a generated program of 1-5 generator processes built from the three yield forms (bare delay, "
    "delay+events as tuple/list/single event, future) with yield-from nesting, any_of/all_of trees up to depth 2 built at "
    "the wait or earlier, futures resolved by scheduled events, by other processes' side effects and directly inside "
    "process steps at colliding instants (before/at/after the yield), resolve-twice, completion hooks on processes and "
    "plain events; run on the real engine (auto-terminating, fast and control loops) and on the reference interpreter; "
    "non-trivial = at least one process resumed from a future/combinator and >= 4 resume records; distinct = distinct "
    "digests of the per-process logs"
)
STATE_MEASURE = "distinct (loop, probes fired bitmask) tuples"
REAL = ["happysimulator.core.event.Event/ProcessContinuation", "happysimulator.core.sim_future.SimFuture/any_of/all_of",
        "happysimulator.core.simulation.Simulation", "happysimulator.core.event_heap.EventHeap"]
STUBS = ["harness process entities interpreting JSON step lists", "RefWorld reference interpreter (oracle)"]
ASSUMPTIONS = [
    "each future is yielded by at most one generator (documented constraint)",
    "when two or more inputs of any_of are already resolved at the moment the combinator is built, the statement's "
    "'first input to resolve' is read as 'one of the inputs already resolved' (the engine reports the first argument); "
    "counted in probe.any_ambiguous_at_build, not judged",
    "same-instant ordering between events follows creation order (C01)",
]
EXPECTED_PROBES = ["probe.prepared_event_yielded_as_side_effect", "probe.future_awaited_again_after_resolution",
                   "probe.same_future_twice_in_one_combinator", "probe.process_hosted_by_once_callback", "probe.forward_of_start_event_as_side_effect", "probe.exception_instance_as_value", "probe.futures_built_during_an_earlier_run", "probe.two_phase_job_rearms_its_event_from_a_hook", "probe.cancel_of_already_dispatched_event", "probe.non_native_generator", "probe.future_object_as_value", "probe.shared_leaf_woke_two", "probe.shared_empty_list_form", "probe.pre_resolved_wait", "probe.resolve_twice", "probe.nested_combinator",
                   "probe.hook_on_process", "probe.sub_generator", "probe.any_ambiguous_at_build",
                   "probe.sub_ns_delay_truncated"]
SHRINK_SKIP = ("futures",)


def gen(rng, tier):
    return procprog.gen_procprog(rng)


def run_engine(sc):
    futs = None
    if sc.get("futs_from_earlier_run"):
        # the futures are long-lived objects built by a handler of an earlier, completed simulation (a warmed-up entity
        # holding lazily created latches) and awaited / resolved in the run under test
        from happysimulator.core.entity import Entity
        from happysimulator.core.event import Event
        from happysimulator.core.sim_future import SimFuture
        futs = []

        class _Warm(Entity):
            def handle_event(self, event):
                futs.extend(SimFuture() for _ in range(sc["futures"]))
                return None

        warm = _Warm("warm-up")
        aux = Simulation(entities=[warm])
        aux.schedule(Event(time=Instant(0), event_type="warm", target=warm))
        aux.run()
    w = procprog.EngineWorld(sc, futs=futs)
    end = Instant(10**15) if sc.get("loop") == "fast" else None
    sim = Simulation(entities=w.entities(), end_time=end)
    sim.schedule(w.initial_events())
    if sc.get("loop") == "control":
        sim.control.on_event(lambda e: None)
    sim.run()
    return w


def _first_diff(a, b):
    for i in range(min(len(a), len(b))):
        if a[i] != b[i]:
            return i
    return min(len(a), len(b)) if len(a) != len(b) else None


def compare(sc, eng, ref):
    for i in range(len(sc["procs"])):
        E, R = eng.plog[i], ref.plog[i]
        d = _first_diff(E, R)
        if d is None:
            continue
        if d >= len(R):
            return f"resumed-more-than-specified/{E[d][0]}", f"process {i} has extra record {E[d]} (reference log ended: {R[-3:]})"
        if d >= len(E):
            return f"never-resumed/{R[d][0]}", f"process {i}: reference continues with {R[d]}, engine log ends at {E[-2:]}"
        e, r = E[d], R[d]
        if e[0] != r[0]:
            return "resume-kind-mismatch", f"process {i} record {d}: engine {e} vs reference {r}"
        if e[1] != r[1]:
            return f"resume-time/after-{r[0]}", f"process {i} record {d}: resumed at {e[1]}ns, specified {r[1]}ns ({r[0]})"
        return f"resume-value/{r[0]}", f"process {i} record {d}: received {e[2]!r}, specified {r[2]!r}"
    eh = sorted((repr(h[0]), h[1], h[2]) for h in eng.hooks)
    rh = sorted((repr(h[0]), h[1], h[2]) for h in ref.hooks)
    if eh != rh:
        whos_e = [h[0] for h in eh]
        if len(set(whos_e)) != len(whos_e):
            return "hook/ran-twice", f"engine hooks {eh} vs {rh}"
        if [h[0] for h in eh] != [h[0] for h in rh]:
            return "hook/missing-or-extra", f"engine hooks {eh} vs {rh}"
        return "hook/wrong-instant", f"engine hooks {eh} vs {rh}"
    if sorted(eng.notes) != sorted(ref.notes):
        en, rn = sorted(eng.notes), sorted(ref.notes)
        if sorted(x[0] for x in en) != sorted(x[0] for x in rn):
            return "side-effect/lost-or-duplicated", f"notes {en} vs {rn}"
        return "side-effect/wrong-instant", f"notes {en} vs {rn}"
    if sorted(eng.plain_log) != sorted(ref.plain_log):
        return "plain-event", f"{eng.plain_log} vs {ref.plain_log}"
    return None, ""


def _has_sub(steps):
    return any(s["op"] == "sub" for s in steps)


def _tiny(steps):
    for s in steps:
        if s["op"] == "delay" and 0 < s["d"] < 1e-9:
            return True
        if s["op"] == "sub" and _tiny(s["steps"]):
            return True
    return False


def _dup_leaf(sc) -> bool:
    def dup(t):
        if "f" in t:
            return False
        kids = t.get("any") or t.get("all")
        fs = [k["f"] for k in kids if "f" in k]
        return len(fs) != len(set(fs)) or any(dup(k) for k in kids)

    def walk(steps):
        for s in steps:
            if s["op"] in ("wait", "make") and dup(s["tree"]):
                return True
            if s["op"] == "sub" and walk(s["steps"]):
                return True
        return False
    return any(walk(p["steps"]) for p in sc["procs"])


def _shared_empty(sc) -> int:
    """max number of 'shared_empty' yields (without emits) in one process"""
    def count(steps):
        n = 0
        for s in steps:
            if s["op"] == "delay" and s.get("form") == "shared_empty" and not s.get("emits"):
                n += 1
            elif s["op"] == "sub":
                n += count(s["steps"])
        return n
    return max([count(p["steps"]) for p in sc["procs"]] + [0])


def run(sc):
    procprog.validate(sc)
    ref = procprog.RefWorld(sc)
    ref.run()
    try:
        eng = run_engine(sc)
    except Exception as exc:
        if isinstance(exc, procprog.ValueAsException):
            # the harness only ever hands this object to resolve() as a value; somebody raised it
            return result(sig="C02/resume-value/exception-instance-raised-instead-of-delivered", msg=repr(exc))
        sig = repo_exception_sig(exc)
        if sig is None:
            raise
        return result(sig=f"C02/{sig}", msg=repr(exc))
    sig, msg = compare(sc, eng, ref)
    h = hashlib.blake2b(repr((eng.plog, sorted(eng.notes))).encode(), digest_size=12).hexdigest()
    n_rec = sum(len(l) for l in ref.plog)
    fut_resumes = sum(1 for l in ref.plog for r in l if r[0] in ("future", "any_of", "all_of"))
    counters = {f"probe.{k}": int(v > 0) for k, v in ref.probes.items()}
    counters["probe.hook_on_process"] = int(any(p.get("hook") for p in sc["procs"]))
    counters["probe.sub_generator"] = int(any(_has_sub(p["steps"]) for p in sc["procs"]))
    counters["probe.sub_ns_delay_truncated"] = int(any(_tiny(p["steps"]) for p in sc["procs"]))
    counters["probe.shared_empty_list_form"] = int(_shared_empty(sc) >= 2)
    counters["probe.non_native_generator"] = int(any(p.get("wrap_gen") for p in sc["procs"]))
    counters["probe.future_object_as_value"] = int("'fut':" in repr(sc))
    counters["probe.prepared_event_yielded_as_side_effect"] = int("'prepared'" in repr(sc["procs"]))
    counters["probe.future_awaited_again_after_resolution"] = int("'again': True" in repr(sc["procs"]))
    counters["probe.forward_of_start_event_as_side_effect"] = int("'forward'" in repr(sc["procs"]))
    counters["probe.two_phase_job_rearms_its_event_from_a_hook"] = int(any(pl.get("rearm") is not None for pl in sc.get("plain", [])))
    counters["probe.cancel_of_already_dispatched_event"] = int("'cancel_fired'" in repr(sc["procs"]))
    counters["probe.futures_built_during_an_earlier_run"] = int(bool(sc.get("futs_from_earlier_run")) and sc["futures"] > 0)
    counters["probe.exception_instance_as_value"] = int("'exc'" in repr(sc))
    counters["probe.process_hosted_by_once_callback"] = int(any(p.get("host_once") for p in sc["procs"]))
    counters["probe.same_future_twice_in_one_combinator"] = int(_dup_leaf(sc))
    counters["probe.parked_forever"] = int(len(ref.waiting) > 0)
    counters[f"loop.{sc.get('loop')}"] = 1
    state = repr((sc.get("loop"), tuple(sorted(k for k, v in counters.items() if k.startswith("probe.") and v))))
    return result(sig=f"C02/{sig}" if sig else None, msg=msg, digest=h,
                  nontrivial=fut_resumes >= 1 and n_rec >= 4, counters=counters,
                  sim_s=min(ref.now, 10**12) / 1e9, deliveries=n_rec, klass=sc.get("loop", "?"), state=state)
