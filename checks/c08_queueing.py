"""C08 — queueing pipelines never lose, duplicate, misorder or strand work.

Deterministic simulation with fault injection: generated pipelines built from
the repository's real queue/driver/server/industrial components run inside the
repository's own engine; the "faults" are adversarial schedules (bursts at one
nanosecond through relay chains of different hop counts, arrivals exactly at
completion / shift / gate instants, capacity changes under backlog).  Per-stage
ledgers and reference queue models are driven from `sim.control.on_event`
(after every delivery) and `sim.control.on_time_advance` (state left by the
instant that just ended).  DESIGN.md section 5, C08.
"""
from __future__ import annotations

import copy

from simkit import repo

repo.activate()

from happysimulator.core.event import Event  # noqa: E402
from happysimulator.core.simulation import Simulation  # noqa: E402
from happysimulator.core.temporal import Instant  # noqa: E402

try:  # seed_globals() seeds numpy's global PRNG; import it once here so forked workers inherit it
    import numpy  # noqa: F401,E402
except Exception:  # pragma: no cover - numpy is optional
    pass

from simkit import c08_model as M  # noqa: E402
from simkit.rng import seed_globals  # noqa: E402
from simkit.world import (  # noqa: E402
    BudgetExceeded, InvalidScenario, Monitor, Violation, repo_exception_sig, result, run_sim,
)

PROPERTY = "C08"
RUNS = {"quick": 6_000, "thorough": 2_000_000}
WALL = {"quick": 55, "thorough": 1500}
BATCH = {"quick": 125, "thorough": 1000}
SELFTEST_RUNS = 24
RULE = (
    "each case is a generated pipeline of 1-2 stages (Server with Fixed/Dynamic/Weighted concurrency, explicit "
    "Queue+QueueDriver+custom worker, ShiftedServer, RenegingQueuedResource, PooledCycleResource, BatchProcessor, "
    "ConveyorBelt, GateController; queue policies FIFO/LIFO/Priority/Deadline/Fair/WeightedFair/AdaptiveLIFO/CoDel/"
    "RED/Balking with capacities) fed with 2-60 tagged requests through ConditionalRouter relay chains of 0-3 hops, "
    "arrival instants drawn from a few ticks (bursts, completion/shift/gate instants), scripted set_limit (inside the "
    "run, before run() and while paused at a generated delivery index), capacity_changed() from outside the loop and "
    "DeadlineQueue.purge_expired() housekeeping — or a direct push/pop/peek/purge_expired/query script on one policy inside the engine; main classes are multi (limits > 1) and aligned (coinciding instants), "
    "serial (every limit 1) and offgrid (no coinciding unrelated events) are minor classes; non-trivial = at least 3 requests offered and contention occurred (something waited, was "
    "rejected, or was held) / for policy scripts: >=3 pushes, >=2 pops, depth >=2 reached; distinct = distinct "
    "engine delivery digests"
)
STATE_MEASURE = ("per stage: (kind, policy class, peak in-service bucket, reject-after-dequeue seen) joined over the "
                 "pipeline, plus scenario class")
REAL = [
    "happysimulator.core.simulation.Simulation (instrumented loop) as scheduler",
    "components.queue.Queue, components.queue_driver.QueueDriver, components.queued_resource.QueuedResource",
    "components.queue_policy.FIFOQueue/LIFOQueue/PriorityQueue",
    "components.queue_policies.DeadlineQueue/FairQueue/WeightedFairQueue/AdaptiveLIFO/CoDelQueue/REDQueue",
    "components.server.server.Server + concurrency.FixedConcurrency/DynamicConcurrency/WeightedConcurrency",
    "components.industrial.ShiftedServer/ShiftSchedule, PooledCycleResource, BatchProcessor, ConveyorBelt, "
    "GateController, RenegingQueuedResource, BalkingQueue, ConditionalRouter (relay hops)",
    "components.common.Sink",
]
STUBS = [
    "TrustingWorker / RenegingPool: the custom-worker pattern of the repo's examples (has_capacity = active < limit, "
    "slot taken unconditionally)",
    "SeqLatency (scripted service times), Ctl (scripted DynamicConcurrency.set_limit), PolicyBench (push/pop script)",
    "reference policy models simkit/c08_refpolicy.py and per-stage ledgers simkit/c08_model.py (oracles)",
]
ASSUMPTIONS = [
    "an item that Server discards after dequeue because acquire() fails is counted in requests_rejected and is therefore "
    "'rejected-and-counted' (legal under the statement); it is only a violation when capacity for it was free. The same "
    "over-poll on a worker that trusts the driver (the documented custom-worker pattern, ShiftedServer, "
    "RenegingQueuedResource subclasses) puts more work in service than the limit and is judged",
    "likewise a PooledCycleResource item that is rejected (counted) after having been dequeued is legal; being re-queued "
    "behind later arrivals is an order violation",
    "a newcomer that takes a free unit/slot while others wait (barging) is not judged as an order violation; order is "
    "judged on what leaves the queue versus the policy's reference order",
    "at a shift boundary instant either the old or the new capacity is accepted for a start; stranding is judged with "
    "the capacity that holds after the boundary",
    "expired DeadlineQueue entries that no pop has reached yet count as waiting for conservation but not for stranding",
    "peek() is not part of the statement: peek/next-pop disagreement is counted (obs.peek_ne_next_pop), not judged",
    "WeightedFairQueue's 'fair share' is read as weighted round robin with quantum = weight (its docstring); FairQueue as "
    "round robin over backlogged flows",
    "all durations are multiples of 1/64 s and instants integer nanoseconds, so float->ns truncation inside components "
    "(C07's subject) does not occur",
    "holding is legal where it is the component's contract: closed gate, partial batch without/with pending timeout, "
    "zero-capacity shift",
]
EXPECTED_PROBES = [
    "fault.burst_same_instant", "fault.mixed_depth_burst", "fault.arrival_at_completion_instant",
    "fault.arrival_at_transition_instant", "fault.capacity_raised_under_backlog",
    "probe.queue_full_reject", "probe.server_reject_heavy_head", "probe.empty_poll_answer",
    "probe.burst_pulled_in_within_instant", "probe.capacity_raise_pulled_backlog", "probe.notify_and_completion_coincide",
    "probe.deadline_expired_drop", "probe.codel_drop", "probe.reneged", "probe.shift_zero_capacity",
    "probe.shift_capacity_raised", "probe.dynamic_limit_raised", "probe.pooled_handover", "probe.pooled_arrival_during_handover",
    "probe.batch_timeout_flush", "probe.gate_flush", "probe.gate_held", "probe.held_at_end_by_contract",
    "probe.poll_found_nothing", "probe.policy_push_rejected", "probe.two_stage",
    "probe.configured_policy_on_shifted_or_reneging", "probe.shift_first_arrival_in_later_shift",
    "probe.batch_of_one_with_timeout_processed_at_once",
    "probe.shift_boundary_truncates_below_float", "probe.gate_time_truncates_below_float",
    "probe.batch_timeout_truncates_below_float", "probe.raise_at_truncated_boundary_with_backlog",
    "probe.zero_capacity_queue", "probe.auto_terminating_run", "probe.auto_terminated_with_daemon_events_pending",
    "probe.instant_worker", "probe.reneged_without_target", "probe.gate_touching_intervals", "probe.gate_overlapping_intervals", "probe.outside_change_before_run", "probe.outside_change_while_paused", "probe.outside_limit_raised_under_backlog",
    "probe.outside_grace_ended_by_trigger", "probe.policy_purge_removed", "probe.policy_purge_left_3plus", "probe.policy_query", "probe.pipeline_purge_removed",
]
SHRINK_SKIP = ("kind", "type", "model", "mode", "flow", "flow_weights", "max_p", "weight", "prob", "op")
SHRINK_BUDGET_S = {"quick": 20.0, "thorough": 60.0}

TICK = M.TICK_NS
QR_KINDS = ("server", "driver", "shifted", "reneging")
ALL_KINDS = QR_KINDS + ("pooled", "batch", "conveyor", "gate")
FLOWS = ("f0", "f1", "f2", "f3")


# ---------------------------------------------------------------------------
# generation
# ---------------------------------------------------------------------------

def _cap(rng, lo=1, hi=5, p_none=0.4, zero=False):
    """capacity draw; boundary values on purpose: the minimum the constructor accepts (0 where `zero`) and 1"""
    if rng.random() < p_none:
        return None
    r = rng.random()
    if zero and r < 0.12:
        return 0
    if r < 0.3:
        return lo
    return rng.randint(lo, hi)


# decimals (in ms) whose float -> integer-nanosecond conversion truncates BELOW the value: int(4.1 * 1e9) == 4_099_999_999
BAD_MS = [k for k in range(1000, 9000) if int((k / 1000) * 1e9) != k * 10**6]


def _ms_times(rng, n):
    """n ascending millisecond values, mostly non-round-tripping ones (4.1 s, 2.01 s, 8.2 s, ...)"""
    pool = [4100, 2010, 8200, 1001, 2002] + rng.sample(BAD_MS, 6) + [rng.randrange(1000, 6000) for _ in range(2)]
    return sorted(rng.sample(sorted(set(pool)), n))


def gen_policy_cfg(rng, allow_balk=True):
    t = rng.choice(["fifo", "fifo", "lifo", "prio", "prio", "deadline", "deadline", "fair", "wfq", "alifo", "codel",
                    "red", "balk"] if allow_balk else ["fifo", "lifo", "prio"])
    if t in ("fifo", "lifo", "prio"):
        return {"type": t, "cap": _cap(rng, zero=True)}      # capacity 0 = no waiting room is a legal configuration
    if t == "deadline":
        return {"type": t, "cap": _cap(rng)}
    if t == "fair":
        return {"type": t, "max_flows": _cap(rng, 1, 3, 0.5), "per_flow": _cap(rng, 1, 3, 0.5)}
    if t == "wfq":
        return {"type": t, "cap": _cap(rng, 2, 6, 0.5), "per_flow": _cap(rng, 1, 3, 0.6)}
    if t == "alifo":
        return {"type": t, "threshold": rng.randint(1, 4), "cap": _cap(rng, 2, 6, 0.5)}
    if t == "codel":
        return {"type": t, "target_ticks": rng.randint(1, 3), "interval_ticks": rng.randint(2, 8), "cap": _cap(rng, 3, 8, 0.5)}
    if t == "red":
        lo = rng.randint(0, 2)
        hi = lo + rng.randint(1, 3)
        return {"type": t, "min_th": lo, "max_th": hi, "max_p": rng.choice([0.1, 0.5, 1.0]),
                "weight": rng.choice([0.25, 0.5, 0.75]), "cap": None if rng.random() < 0.5 else hi + rng.randint(0, 3)}
    return {"type": "balk", "inner": gen_policy_cfg(rng, allow_balk=False), "threshold": rng.randint(0, 3),
            "prob": rng.choice([1.0, 1.0, 0.5, 0.0])}


def gen_stage(rng, kind, serial, avoid_shift, idx=0):
    lim = 1 if serial else rng.randint(1, 4)
    if kind == "server":
        model = rng.choice(["fixed", "fixed", "dynamic", "weighted"])
        if model == "fixed":
            conc = {"model": "fixed", "n": lim}
        elif model == "dynamic":
            conc = {"model": "dynamic", "n": lim, "min": 1, "max": 1 if serial else lim + rng.randint(0, 3)}
        else:
            conc = {"model": "weighted", "n": 1 if serial else rng.randint(1, 5)}
        if rng.random() < 0.6:
            svc = {"mode": "const", "ticks": rng.choice([0, 1, 1, 2, 3, 4])}
        else:
            svc = {"mode": "seq", "seq": [rng.randint(0, 5) for _ in range(rng.randint(2, 5))]}
        pol = gen_policy_cfg(rng)
        st = {"kind": kind, "conc": conc, "policy": pol, "svc": svc}
        if pol["type"] == "fifo" and rng.random() < 0.5:
            st["via_queue_capacity"] = True
        return st
    if kind in ("driver", "reneging"):
        svc = {"mode": "const", "ticks": rng.choice([0, 1, 2, 3])} if rng.random() < 0.5 else {"mode": "item"}
        st = {"kind": kind, "limit": lim, "policy": gen_policy_cfg(rng), "svc": svc}
        if kind == "reneging":
            st["patience_ticks"] = None if rng.random() < 0.3 else rng.randint(0, 8)
        return st
    if kind == "shifted":
        if avoid_shift:
            # avoidance: capacity never rises under backlog (recorded finding: nobody polls at a raise)
            start = rng.choice([0, 0, rng.randint(1, 4)])
            shifts = [[start, start + rng.randint(4, 40), 1]]
            default = 1 if start else 0
        elif rng.random() < 0.3:
            # boundaries at decimals that do not survive float -> ns; capacity rises (mostly from 0) at such a boundary
            ts = _ms_times(rng, rng.randint(2, 4))
            caps = [rng.choice([0, 0, 0, 1])] + [rng.choice([1, 2, 3]) if serial is False else 1 for _ in ts[1:]]
            shifts = [[0, ts[0], caps[0]]] + [[ts[i], ts[i + 1], caps[i + 1] if i % 2 == 0 else rng.choice([0, caps[i + 1]])]
                                            for i in range(len(ts) - 1)]
            default = rng.choice([0, 1, 2]) if not serial else rng.choice([0, 1])
            return {"kind": kind, "ms": True, "shifts": shifts, "default": default, "policy": gen_policy_cfg(rng),
                    "svc": {"mode": "const", "ticks": rng.randint(1, 4)}}
        else:
            shifts, t = [], rng.choice([0, 0, rng.randint(1, 6)])
            for _ in range(rng.randint(1, 4)):
                d = rng.randint(1, 12)
                shifts.append([t, t + d, rng.choice([0, 0, 1, 1, 2, 3]) if not serial else rng.choice([0, 1, 1])])
                t += d + rng.choice([0, 0, rng.randint(1, 5)])
            default = rng.choice([0, 0, 1]) if not serial else rng.choice([0, 0, 1])
        return {"kind": kind, "shifts": shifts, "default": default, "policy": gen_policy_cfg(rng),
                "svc": {"mode": "const", "ticks": rng.randint(1, 4)}}
    if kind == "pooled":
        return {"kind": kind, "pool": 1 if serial else rng.randint(1, 3), "cycle_ticks": rng.choice([0, 1, 2, 2, 3, 5]),
                "qcap": rng.choice([0, 0, 1, 2, 3])}
    if kind == "batch":
        st = {"kind": kind, "size": rng.randint(1, 5), "proc_ticks": rng.randint(0, 4),
              "timeout_ticks": rng.choice([0, 0, rng.randint(1, 8), rng.randint(1, 8)])}
        if rng.random() < 0.15:
            st["ms"] = True
            st["timeout_ticks"] = rng.choice(BAD_MS[:40])        # ~1.0-2.1 s, truncates below the decimal
        return st
    if kind == "conveyor":
        return {"kind": kind, "transit_ticks": rng.randint(0, 5), "cap": rng.choice([0, 0, 1, 2, 3])}
    if kind == "gate":
        if rng.random() < 0.2:
            ts = _ms_times(rng, rng.choice([2, 4]))
            return {"kind": kind, "ms": True, "schedule": [[ts[i], ts[i + 1]] for i in range(0, len(ts), 2)],
                    "initially_open": rng.random() < 0.3, "qcap": rng.choice([0, 0, 1, 2, 3])}
        sched, t = [], rng.randint(0, 6)
        chain = rng.random() < 0.5          # back-to-back windows: the close of one interval is the open of the next
        for _ in range(rng.randint(0, 4)):
            d = rng.choice([0, 1, 2, 3]) if rng.random() < 0.15 else rng.randint(1, 10)
            sched.append([t, t + d])
            gap = 0 if chain and rng.random() < 0.7 else rng.choice([0, rng.randint(1, 6), rng.randint(1, 6),
                                                                     -rng.randint(0, d)])   # touching, apart, overlapping
            t = max(0, t + d + gap)
        return {"kind": kind, "schedule": sched, "initially_open": rng.random() < 0.5, "qcap": rng.choice([0, 0, 1, 2, 3])}
    raise ValueError(kind)


def _interesting_ticks(stages):
    out = set()
    for st in stages:
        k = st["kind"]
        if st.get("ms"):
            pass                                    # decimal times: see _ms_instants
        elif k == "shifted":
            for a, b, _ in st["shifts"]:
                out.update((a, b))
        elif k == "gate":
            for a, b in st["schedule"]:
                out.update((a, b))
        elif k == "batch" and st["timeout_ticks"]:
            out.add(st["timeout_ticks"])
        svc = st.get("svc")
        step = None
        if svc and svc.get("mode") == "const":
            step = svc["ticks"]
        elif k == "pooled":
            step = st["cycle_ticks"]
        elif k == "conveyor":
            step = st["transit_ticks"]
        if step:
            out.update(step * m for m in range(1, 5))
    return sorted(out)


def _ms_instants(stages):
    """truncated-nanosecond instants of the decimal boundaries of "ms" stages"""
    out = []
    for st in stages:
        if st.get("ms"):
            vals = [x for s_ in st.get("shifts", []) for x in s_[:2]] + [x for s_ in st.get("schedule", []) for x in s_]
            out.extend(int((v / 1000) * 1e9) for v in vals if v)
    return sorted(set(out))


def gen_pipeline(rng, tier, seed):
    # main classes: limits > 1, coinciding instants, capacity changes.  `serial` (every limit 1) and `offgrid`
    # (no two unrelated events share an instant) were avoidance classes while the polling defects were recorded;
    # they stay as minor classes because they are configurations in their own right.
    serial = rng.random() < 0.15
    offgrid = rng.random() < 0.15
    avoid = False
    kinds = ["server"] * 6 + ["driver"] * 3 + ["shifted"] * 3 + ["reneging"] * 2 + ["pooled"] * 2 + ["batch"] * 2 + \
            ["conveyor"] + ["gate"] * 2
    k0 = rng.choice(kinds)
    stages = [gen_stage(rng, k0, serial, avoid)]
    if rng.random() < 0.3:
        stages.append(gen_stage(rng, rng.choice(kinds), serial, avoid, idx=1))
    # a share of runs in the engine's default auto-terminating mode (no end_time): only primary events keep the run
    # alive, so driver bookkeeping must not be what a waiting item depends on.  Their last stage is often a worker
    # that leaves no event behind: an instant (non-generator) worker without downstream, or a reneging desk whose
    # reneged customers just leave.
    auto = rng.random() < 0.2
    if auto and rng.random() < 0.7:
        if rng.random() < 0.5:
            last = {"kind": "driver", "limit": 1, "policy": gen_policy_cfg(rng), "svc": {"mode": "instant"},
                    "sinkless": rng.random() < 0.8}
        else:
            last = gen_stage(rng, "reneging", serial, avoid, idx=len(stages) - 1)
            last["no_reneged_sink"] = True
            last["patience_ticks"] = rng.choice([0, 0, 1, 2])
        stages[-1] = last
    n = rng.randint(2, 60 if tier == "quick" else 300) if rng.random() < 0.85 else rng.randint(2, 6)
    span = rng.randint(1, 30)
    ms_ns = _ms_instants(stages)
    if ms_ns:
        span = ms_ns[-1] // TICK + rng.randint(2, 20)      # the workload has to reach the decimal boundaries
    cand = sorted({rng.randint(0, span) for _ in range(rng.randint(1, 6) + (3 if ms_ns else 0))})
    hot = [t for t in _interesting_ticks(stages) if t <= span + 20]
    if hot and rng.random() < 0.7:
        cand = sorted(set(cand) | set(rng.sample(hot, min(len(hot), rng.randint(1, 3)))))
    p_hop = rng.choice([0.0, 0.3, 0.6])
    arrivals = []
    for i in range(n):
        tick = rng.choice(cand)
        a = {"tick": tick, "off": (i + 1) * 1009 if offgrid else 0,
             "hops": rng.randint(1, 3) if rng.random() < p_hop else 0,
             "prio": rng.randint(0, 3), "flow": rng.choice(FLOWS), "w": 1 if serial else rng.choice([1, 1, 1, 2, 3]),
             "dl": rng.randint(0, 20), "pat": None if rng.random() < 0.5 else rng.randint(0, 10),
             "svc": rng.choice([0, 1, 1, 2, 3, 5])}
        if ms_ns and rng.random() < 0.35:
            # around a decimal boundary: exactly at its (truncated) instant, or shortly before it (backlog at the transition)
            b = rng.choice(ms_ns)
            if rng.random() < 0.4:
                a["tick"], a["off"] = b // TICK, b % TICK
            else:
                a["tick"] = max(0, b // TICK - rng.randint(0, 6))
        arrivals.append(a)
    ctl = []
    for si, st in enumerate(stages):
        if st["kind"] == "server" and st["conc"]["model"] == "dynamic" and not serial:
            for _ in range(rng.randint(0, 5)):
                ctl.append({"tick": rng.choice(cand) + rng.choice([0, 0, 1, 2]), "stage": si,
                            "limit": rng.randint(0, st["conc"]["max"] + 1)})
    outside = []
    if rng.random() < 0.3:
        for _ in range(rng.randint(1, 3)):
            si = rng.randrange(len(stages))
            st = stages[si]
            at = rng.choice([0, 0, rng.randint(1, 6 * n + 4), rng.randint(1, 12 * n + 4)])
            if st["kind"] == "server" and st["conc"]["model"] == "dynamic" and rng.random() < 0.8:
                outside.append({"at": at, "stage": si, "op": "limit", "limit": rng.randint(0, st["conc"]["max"] + 1)})
            elif st["kind"] in ("server", "shifted", "reneging"):
                outside.append({"at": at, "stage": si, "op": "changed"})
    purge = []
    for si, st in enumerate(stages):
        if st["kind"] in QR_KINDS and st["policy"]["type"] == "deadline" and rng.random() < 0.7:
            for _ in range(rng.randint(1, 4)):      # periodic housekeeping: DeadlineQueue.purge_expired()
                purge.append({"tick": rng.choice(cand) + rng.choice([0, 1, 2, 3, 5]), "stage": si})
    return {"seed": seed, "kind": "pipeline", "serial": serial, "offgrid": offgrid, "stages": stages,
            "flow_weights": {f: rng.randint(1, 3) for f in FLOWS}, "arrivals": arrivals, "ctl": ctl, "purge": purge,
            "outside": outside, "auto": auto}


def gen_policy(rng, tier, seed):
    cfg = gen_policy_cfg(rng)
    n = rng.randint(3, 24)
    wide = rng.random() < 0.5
    items = [{"prio": rng.randint(0, 3), "flow": rng.choice(FLOWS),
              "dl": rng.choice([rng.randint(0, 4), rng.randint(0, 12), rng.randint(5, 60)]) if wide else rng.randint(0, 12)}
             for _ in range(n)]
    p_purge = rng.choice([0.0, 0.1, 0.2]) if cfg["type"] == "deadline" else 0.0
    ops, t, nxt = [], 0, 0
    p_pop = rng.choice([0.25, 0.4, 0.55])
    if p_purge:
        p_pop = rng.choice([0.1, 0.2, 0.3])         # housekeeping scripts: let the heap grow, purge, then drain
    for _ in range(rng.randint(6, 70)):
        if rng.random() < 0.3:
            t += rng.choice([1, 1, 2, 3, 5])
        r = rng.random()
        if r < p_pop:
            ops.append({"op": "pop", "t": t})
        elif r < p_pop + 0.07:
            ops.append({"op": "peek", "t": t})
        elif r < p_pop + 0.14:
            ops.append({"op": "query", "t": t})
        elif r < p_pop + 0.14 + p_purge:
            if rng.random() < 0.6:
                t += rng.choice([1, 2, 3, 5, 8])
            ops.append({"op": "purge", "t": t})
        elif nxt < n:
            ops.append({"op": "push", "it": nxt, "t": t})
            nxt += 1
        else:
            ops.append({"op": "pop", "t": t})
    if p_purge:
        ops.extend({"op": "pop", "t": t} for _ in range(rng.randint(0, 8)))
    return {"seed": seed, "kind": "policy", "policy": cfg, "flow_weights": {f: rng.randint(1, 3) for f in FLOWS},
            "items": items, "ops": ops}


def gen(rng, tier):
    seed = rng.getrandbits(40)
    if rng.random() < 0.15:
        return gen_policy(rng, tier, seed)
    return gen_pipeline(rng, tier, seed)


# ---------------------------------------------------------------------------
# validation (the shrinker produces arbitrary sub-structures)
# ---------------------------------------------------------------------------

def _isint(x, lo=None, hi=None):
    return isinstance(x, int) and not isinstance(x, bool) and (lo is None or x >= lo) and (hi is None or x <= hi)


def _need(c, msg):
    if not c:
        raise InvalidScenario(msg)


def _validate_policy(p, depth=0):
    _need(isinstance(p, dict) and "type" in p, "policy")
    t = p["type"]
    cap = p.get("cap")
    _need(cap is None or _isint(cap, 0 if t in ("fifo", "lifo", "prio") else 1), "cap")
    if t in ("fifo", "lifo", "prio", "deadline"):
        return
    if t == "fair":
        _need(p.get("max_flows") is None or _isint(p["max_flows"], 1), "max_flows")
        _need(p.get("per_flow") is None or _isint(p["per_flow"], 1), "per_flow")
    elif t == "wfq":
        _need(p.get("per_flow") is None or _isint(p["per_flow"], 1), "per_flow")
    elif t == "alifo":
        _need(_isint(p.get("threshold"), 1), "threshold")
    elif t == "codel":
        _need(_isint(p.get("target_ticks"), 1) and _isint(p.get("interval_ticks"), 1), "codel")
    elif t == "red":
        _need(_isint(p.get("min_th"), 0) and _isint(p.get("max_th"), 1) and p["max_th"] > p["min_th"], "red thresholds")
        _need(isinstance(p.get("max_p"), float) and 0 < p["max_p"] <= 1, "red max_p")
        _need(isinstance(p.get("weight", 0.5), float) and 0 < p.get("weight", 0.5) < 1, "red weight")
        _need(cap is None or cap >= p["max_th"], "red cap")
    elif t == "balk":
        _need(depth == 0 and isinstance(p.get("inner"), dict) and p["inner"].get("type") in ("fifo", "lifo", "prio"), "balk inner")
        _validate_policy(p["inner"], 1)
        _need(_isint(p.get("threshold"), 0), "balk threshold")
        _need(isinstance(p.get("prob"), float) and 0.0 <= p["prob"] <= 1.0, "balk prob")
    else:
        raise InvalidScenario("policy type")


def _validate_stage(st):
    _need(isinstance(st, dict) and st.get("kind") in ALL_KINDS, "stage kind")
    k = st["kind"]
    _need(isinstance(st.get("ms", False), bool) and (not st.get("ms") or k in ("shifted", "gate", "batch")), "ms flag")
    if k in QR_KINDS:
        _validate_policy(st.get("policy"))
        svc = st.get("svc")
        _need(isinstance(svc, dict) and svc.get("mode") in ("const", "seq", "item", "instant"), "svc")
        _need(svc["mode"] != "instant" or k == "driver", "instant worker")
        _need(isinstance(st.get("sinkless", False), bool) and (not st.get("sinkless") or svc["mode"] == "instant"), "sinkless")
        _need(isinstance(st.get("no_reneged_sink", False), bool), "no_reneged_sink")
        if svc["mode"] == "const":
            _need(_isint(svc.get("ticks"), 0), "svc ticks")
        if svc["mode"] == "seq":
            _need(k == "server" and isinstance(svc.get("seq"), list) and svc["seq"]
                  and all(_isint(x, 0) for x in svc["seq"]), "svc seq")
        if svc["mode"] == "item":
            _need(k in ("driver", "reneging"), "svc item")
    if k == "server":
        c = st.get("conc")
        _need(isinstance(c, dict) and c.get("model") in ("fixed", "dynamic", "weighted") and _isint(c.get("n"), 1), "conc")
        if c["model"] == "dynamic":
            _need(_isint(c.get("min"), 1) and (c.get("max") is None or _isint(c["max"], c["min"])), "dyn bounds")
            _need(c["min"] <= c["n"] and (c.get("max") is None or c["n"] <= c["max"]), "dyn initial")
            _need("max" in c, "dyn max key")
    elif k in ("driver", "reneging"):
        _need(_isint(st.get("limit"), 1), "limit")
        if k == "reneging":
            _need(st.get("patience_ticks") is None or _isint(st["patience_ticks"], 0), "patience")
    elif k == "shifted":
        _need(st["svc"]["mode"] == "const" and st["svc"]["ticks"] >= 1, "shifted svc")
        sh = st.get("shifts")
        _need(isinstance(sh, list), "shifts")
        last = 0
        for s in sh:
            _need(isinstance(s, list) and len(s) == 3 and _isint(s[0], 0) and _isint(s[1], 1) and _isint(s[2], 0)
                  and s[0] < s[1] and s[0] >= last, "shift")
            last = s[1]
        _need(_isint(st.get("default", 0), 0), "default cap")
    elif k == "pooled":
        _need(_isint(st.get("pool"), 1) and _isint(st.get("cycle_ticks"), 0) and _isint(st.get("qcap", 0), 0), "pooled")
    elif k == "batch":
        _need(_isint(st.get("size"), 1) and _isint(st.get("proc_ticks"), 0) and _isint(st.get("timeout_ticks", 0), 0), "batch")
    elif k == "conveyor":
        _need(_isint(st.get("transit_ticks"), 0) and _isint(st.get("cap", 0), 0), "conveyor")
    elif k == "gate":
        sc = st.get("schedule")
        _need(isinstance(sc, list) and all(isinstance(x, list) and len(x) == 2 and _isint(x[0], 0) and _isint(x[1], 0)
                                            for x in sc), "gate schedule")
        _need(_isint(st.get("qcap", 0), 0), "gate qcap")


def _validate(sc):
    _need(isinstance(sc, dict) and sc.get("kind") in ("pipeline", "policy") and _isint(sc.get("seed"), 0), "top")
    if sc["kind"] == "policy":
        _validate_policy(sc.get("policy"))
        _need(isinstance(sc.get("items"), list) and isinstance(sc.get("ops"), list), "policy lists")
        for it in sc["items"]:
            _need(isinstance(it, dict) and _isint(it.get("prio", 0), 0) and it.get("flow", "f0") in FLOWS
                  and _isint(it.get("dl", 0), 0), "item")
        for op in sc["ops"]:
            _need(isinstance(op, dict) and op.get("op") in ("push", "pop", "peek", "purge", "query")
                  and _isint(op.get("t", 0), 0), "op")
            if op["op"] == "push":
                _need(_isint(op.get("it"), 0, len(sc["items"]) - 1), "op item")
        return
    st = sc.get("stages")
    _need(isinstance(st, list) and 1 <= len(st) <= 3, "stages")
    for s in st:
        _validate_stage(s)
    arr = sc.get("arrivals")
    _need(isinstance(arr, list) and len(arr) >= 1, "arrivals")
    for a in arr:
        _need(isinstance(a, dict) and _isint(a.get("tick", 0), 0) and _isint(a.get("off", 0), 0, TICK - 1)
              and _isint(a.get("hops", 0), 0, 4) and _isint(a.get("prio", 0), 0) and a.get("flow", "f0") in FLOWS
              and _isint(a.get("w", 1), 1) and _isint(a.get("dl", 0), 0)
              and (a.get("pat") is None or _isint(a["pat"], 0)) and _isint(a.get("svc", 1), 0), "arrival")
    for c in sc.get("ctl", []):
        _need(isinstance(c, dict) and _isint(c.get("tick", 0), 0) and _isint(c.get("stage", 0), 0, len(st) - 1)
              and _isint(c.get("limit", 1), 0), "ctl")
        s = st[c.get("stage", 0)]
        _need(s["kind"] == "server" and s["conc"]["model"] == "dynamic", "ctl target")
    _need(isinstance(sc.get("auto", False), bool), "auto")
    _need(not any(s.get("sinkless") for s in st[:-1]), "sinkless stage must be last")
    for o in sc.get("outside", []):
        _need(isinstance(o, dict) and _isint(o.get("at", 0), 0) and _isint(o.get("stage", 0), 0, len(st) - 1)
              and o.get("op", "changed") in ("limit", "changed") and _isint(o.get("limit", 1), 0), "outside")
    for c in sc.get("purge", []):
        _need(isinstance(c, dict) and _isint(c.get("tick", 0), 0) and _isint(c.get("stage", 0), 0, len(st) - 1), "purge")
    fw = sc.get("flow_weights", {})
    _need(isinstance(fw, dict) and all(k in FLOWS and _isint(v, 0) for k, v in fw.items()), "flow_weights")


# ---------------------------------------------------------------------------
# running
# ---------------------------------------------------------------------------

def _normalise(sc):
    """scenario (ticks) -> internal records (integer nanoseconds)"""
    out = copy.deepcopy(sc)
    arr = []
    for rid, a in enumerate(sc["arrivals"]):
        t = a.get("tick", 0) * TICK + a.get("off", 0)
        arr.append({"rid": rid, "t": t, "hops": a.get("hops", 0), "prio": a.get("prio", 0), "flow": a.get("flow", "f0"),
                    "w": a.get("w", 1), "deadline_ns": t + a.get("dl", 0) * TICK,
                    "patience_ns": None if a.get("pat") is None else a["pat"] * TICK, "svc": a.get("svc", 1)})
    for a in arr:
        if a["patience_ns"] is None:
            del a["patience_ns"]
    out["arrivals"] = arr
    out["ctl"] = [{"t": c.get("tick", 0) * TICK, "stage": c.get("stage", 0), "limit": c.get("limit", 1)}
                  for c in sc.get("ctl", [])]
    out["purge"] = [{"t": c.get("tick", 0) * TICK, "stage": c.get("stage", 0)} for c in sc.get("purge", [])]
    return out


def _horizon_ticks(sc):
    n = len(sc["arrivals"])
    last = max([a.get("tick", 0) for a in sc["arrivals"]] + [c.get("tick", 0) for c in sc.get("ctl", [])]
               + [c.get("tick", 0) for c in sc.get("purge", [])] + [0])
    step = 2
    edge = 0
    for st in sc["stages"]:
        svc = st.get("svc") or {}
        def tk(v):          # a stage time in ticks (stages marked "ms" give milliseconds)
            return v * 64 // 1000 + 1 if st.get("ms") else v

        step += max([svc.get("ticks", 0)] + list(svc.get("seq", [])) + [st.get("cycle_ticks", 0), st.get("transit_ticks", 0),
                                                                      st.get("proc_ticks", 0), tk(st.get("timeout_ticks", 0))])
        if svc.get("mode") == "item":
            step += max(a.get("svc", 1) for a in sc["arrivals"])
        for s in st.get("shifts", []):
            edge = max(edge, tk(s[1]))
        for s in st.get("schedule", []):
            edge = max(edge, tk(s[0]), tk(s[1]))
    return last + edge + (n + 4) * step * len(sc["stages"]) + 64


def _outcome(status, payload):
    if status in ("violation", "exception"):
        return payload.sig, payload.msg
    return None, ""


def _klass(sc):
    return f"{'serial' if sc.get('serial') else 'multi'}-{'offgrid' if sc.get('offgrid') else 'aligned'}"


def run_pipeline(sc):
    norm = _normalise(sc)
    try:
        pipe = M.Pipeline(norm)
    except InvalidScenario:
        raise
    except Violation as v:
        return result(sig=v.sig, msg=v.msg, klass=_klass(sc), counters={"run.construct_violation": 1})
    except Exception as exc:  # noqa: BLE001 - constructors called with validated arguments
        sig = repo_exception_sig(exc)
        if sig is None:
            raise
        return result(sig=f"C08/{sig}", msg=repr(exc), klass="construct")
    horizon = _horizon_ticks(sc) * TICK
    auto = bool(sc.get("auto"))
    if auto:
        sim = Simulation(entities=pipe.entities())       # the engine's default: auto-terminate when only daemon events remain
    else:
        sim = Simulation(entities=pipe.entities(), end_time=Instant(horizon))
    for e in pipe.initial_events():
        sim.schedule(e)
    # capacity changes made from OUTSIDE the running loop: before run() ("at" 0) and while the run is paused
    # after delivery number "at" (sim.control.pause() from the event hook, resume() afterwards)
    outside = sorted(sc.get("outside", []), key=lambda o: o.get("at", 0))
    pause_at = {o.get("at", 0) for o in outside if o.get("at", 0) > 0}

    def on_event(ev, mon_):
        pipe.on_event(ev, mon_)
        if mon_.seq in pause_at:
            sim.control.pause()

    # frozen-clock spin: judged against the work offered, not against a constant.  A burst of n requests at one
    # instant through zero-service stages legitimately needs ~15 deliveries per request and stage at that instant
    # (relay hops, offer, notify, poll, deliver, start, re-check, empty poll and answer, continuation, forward).
    offered = len(sc["arrivals"]) + len(sc.get("ctl", [])) + len(sc.get("purge", [])) + len(sc.get("outside", [])) + \
        sum(2 * len(st.get("shifts", [])) + 2 * len(st.get("schedule", [])) for st in sc["stages"]) + 8
    spin_cap = max(4_000, 40 * len(sc["stages"]) * offered)
    mon = Monitor(sim, cap=max(30_000, 6 * spin_cap), spin_cap=spin_cap, invariant=on_event)
    sim.control.on_time_advance(pipe.on_time_advance)

    def apply_outside(at):
        for o in outside:
            if o.get("at", 0) == at:
                pipe.outside_capacity_change(o.get("stage", 0), o.get("op", "changed"), o.get("limit", 1),
                                             "before-run" if at == 0 else "paused")

    def guarded(fn):
        try:
            return "ok", fn()
        except Violation as v:
            return "violation", v
        except BudgetExceeded as b:
            return "budget", b
        except Exception as exc:  # noqa: BLE001
            sig_ = repo_exception_sig(exc)
            if sig_ is None:
                raise
            return "exception", Violation(sig_, repr(exc))

    status, payload = guarded(lambda: apply_outside(0))
    if status == "ok":
        status, payload = run_sim(sim)
    while status == "ok" and sim.control.is_paused:
        status, payload = guarded(lambda: apply_outside(mon.seq))
        if status == "ok":
            status, payload = guarded(sim.control.resume)
    cut = False
    if status == "ok":
        left = [e for e in sim._event_heap._heap if not e.cancelled and not (auto and e.daemon)]
        if left:
            cut = True          # horizon cut the run: quiescence is not judged
        else:
            try:
                pipe.at_end(lenient=auto and any(e.daemon and not e.cancelled for e in sim._event_heap._heap))
            except Violation as v:
                status, payload = "violation", v
    sig, msg = _outcome(status, payload)
    if sig is not None and not sig.startswith("C08/"):
        sig = f"C08/{sig}"
    ctx = pipe.ctx
    counters = dict(ctx.probe)
    counters["run.horizon_cut"] = int(cut)
    if auto:
        counters["probe.auto_terminating_run"] = 1
        if any(e.daemon and not e.cancelled for e in sim._event_heap._heap):
            counters["probe.auto_terminated_with_daemon_events_pending"] = 1
    counters["run.budget"] = int(status == "budget")
    for st in pipe.stages:
        counters[f"kind.{st.cfg['kind']}"] = counters.get(f"kind.{st.cfg['kind']}", 0) + 1
        if isinstance(st, M.QRStage):
            counters[f"policy.{st.cfg['policy']['type']}"] = counters.get(f"policy.{st.cfg['policy']['type']}", 0) + 1
            if st.kind == "server":
                counters[f"conc.{st.cfg['conc']['model']}"] = counters.get(f"conc.{st.cfg['conc']['model']}", 0) + 1
    if len(pipe.stages) > 1:
        counters["probe.two_stage"] = 1
    offered = len(pipe.stages[0].state)
    contention = any(st.n_waited or any(s in ("waiting", "rejected", "expired", "dropped", "reneged", "rejected-after-dequeue")
                                        for s in st.state.values()) for st in pipe.stages)
    klass = _klass(sc)
    state = klass + "|" + "|".join(st.abstract() for st in pipe.stages)
    return result(sig=sig, msg=msg, digest=mon.digest, nontrivial=offered >= 3 and bool(contention), counters=counters,
                  sim_s=mon.last_time_ns / 1e9, deliveries=mon.seq, klass=klass, state=state)


def run_policy(sc):
    weights = {k: int(v) for k, v in sc.get("flow_weights", {}).items()}
    items = []
    base = {}
    for op in sc["ops"]:
        if op["op"] == "push" and op["it"] not in base:
            base[op["it"]] = op.get("t", 0) * TICK
    for i, it in enumerate(sc["items"]):
        items.append({"rid": i, "prio": it.get("prio", 0), "flow": it.get("flow", "f0"),
                      "deadline_ns": base.get(i, 0) + it.get("dl", 0) * TICK})
    probe: dict[str, int] = {}
    try:
        bench = M.PolicyBench("bench", sc["policy"], items, weights, probe)
    except InvalidScenario:
        raise
    except Exception as exc:  # noqa: BLE001
        sig = repo_exception_sig(exc)
        if sig is None:
            raise
        return result(sig=f"C08/{sig}", msg=repr(exc), klass="construct")
    last = max([op.get("t", 0) for op in sc["ops"]] + [0])
    sim = Simulation(entities=[bench], end_time=Instant((last + 10) * TICK))
    for op in sc["ops"]:
        sim.schedule(Event(time=Instant(op.get("t", 0) * TICK), event_type="op", target=bench, context={"op": op}))
    mon = Monitor(sim, cap=5_000)
    status, payload = run_sim(sim)
    sig, msg = _outcome(status, payload)
    if sig is not None and not sig.startswith("C08/"):
        sig = f"C08/{sig}"
    pushes = sum(1 for t in bench.trace if t[0] == "push")
    pops = sum(1 for t in bench.trace if t[0] == "pop" and t[1] is not None)
    counters = dict(probe)
    counters[f"policy.{sc['policy']['type']}"] = 1
    counters["kind.policy_script"] = 1
    import hashlib

    h = hashlib.blake2b(repr(bench.trace).encode(), digest_size=12).hexdigest()
    return result(sig=sig, msg=msg, digest=h, nontrivial=pushes >= 3 and pops >= 2 and bench.max_len >= 2,
                  counters=counters, sim_s=mon.last_time_ns / 1e9, deliveries=mon.seq, klass="policy-script",
                  state=f"policy-script|{bench.pcls}|{min(bench.max_len, 5)}|{int(bool(probe.get('probe.policy_push_rejected')))}")


def run(sc):
    _validate(sc)
    seed_globals(sc["seed"])
    if sc["kind"] == "policy":
        return run_policy(sc)
    return run_pipeline(sc)
