"""C01 — every live event is delivered exactly once, in time order, FIFO ties.

Generated script programs run on the real engine (both loops) and on the
reference interpreter; the delivery histories are compared.  DESIGN.md §5 C01.
"""
from __future__ import annotations

import hashlib

from simkit import repo

repo.activate()

from happysimulator.core.simulation import Simulation  # noqa: E402
from happysimulator.core.temporal import Duration, Instant  # noqa: E402

from simkit.refengine import RefEngine  # noqa: E402
from simkit.scriptprog import ProgramRunner, gen_program  # noqa: E402
from simkit.world import InvalidScenario, result  # noqa: E402

PROPERTY = "C01"
RUNS = {"quick": 24_000, "thorough": 30_000_000}
WALL = {"quick": 50, "thorough": 1500}
BATCH = {"quick": 300, "thorough": 2000}
CPU_LIMIT_S = 30          # a generated program is a few hundred deliveries: milliseconds of CPU
TIMEOUT_SIG = "run-does-not-terminate"
RULE = (
    "each case is a generated script program (1-5 entities, handlers returning none/one/list/generator, "
    "0-24 initial events drawn from <=4 distinct timestamps, daemon/cancelled/past/crashed mixes, end_time "
    "none/before/on/between/after, stated as end_time= or duration=, start_time at or after the epoch; events built "
    "before the run and handed over by a handler during it; events built and scheduled from outside while the run is "
    "paused) run on the real engine in one of three loop modes and on the reference "
    "interpreter; non-trivial = >=3 deliveries and at least one same-timestamp tie group among live events; "
    "distinct = distinct engine delivery-log digests"
)
STATE_MEASURE = "distinct (loop mode, end kind, #tie groups bucket, has cancelled, has daemon, has generator) tuples"
REAL = ["happysimulator.core.simulation.Simulation (fast loop and instrumented loop)",
        "happysimulator.core.event_heap.EventHeap", "happysimulator.core.event.Event/ProcessContinuation",
        "happysimulator.core.clock.Clock", "happysimulator.core.control.SimulationControl (mode=control)"]
STUBS = ["ScriptEntity handlers interpreting the JSON program (harness)", "RefEngine reference interpreter (oracle)"]
ASSUMPTIONS = [
    "creation order is the order in which the harness/handler body constructs Event objects, whether before or after the "
    "Simulation object is constructed (any split is generated)",
    "events later than end_time are outside the statement (the engine delivers the first one past end_time; not judged here)",
    "cancelled non-daemon events count as pending until lazily removed (weaker reading of auto-termination)",
    "whether a requested pause takes effect before the run ends is not judged here (C04 does); injections are replayed on "
    "the reference at the delivery counts at which the engine actually paused",
]
EXPECTED_PROBES = ["probe.tie_prerun_vs_inrun", "probe.cancelled_skipped", "probe.past_discarded",
                   "probe.daemon_left_pending", "probe.generator_resumed", "probe.crashed_target_skipped",
                   "probe.events_created_before_simulation", "probe.cancelled_after_schedule",
                   "probe.event_object_retimed_and_returned", "probe.nonzero_start_with_duration",
                   "probe.event_before_start_time_discarded", "probe.prepared_event_tied_with_inrun_event",
                   "probe.injected_while_paused_tied_with_inrun_event",
                   "probe.events_built_in_an_earlier_run_tied_with_initial"]
SHRINK_SKIP = ("n_entities", "n_kinds")


def gen(rng, tier):
    prog = gen_program(rng, allow_prepared=True)
    modes = ["control", "plain"] + (["fast", "fast"] if prog["end"] is not None else [])
    prog["mode"] = rng.choice(modes)
    prog["perturb"] = rng.randrange(0, 50) if rng.random() < 0.3 else 0
    # the first n initial events are built before the Simulation object exists, the rest after it
    r = rng.random()
    n = len(prog["initial"])
    prog["create_before_sim"] = 0 if r < 0.6 else (n if r < 0.75 else rng.randint(0, n))
    # a run that does not begin at the epoch; the same end expressed as end_time= or as duration=
    if rng.random() < 0.2:
        prog["start"] = rng.choice([1, 1_000, 1_000, 100_000_000, 200_000_000])
        if prog["end"] is not None and prog["end"] < prog["start"]:
            prog["end"] = prog["start"] + prog["end"]
    prog["use_duration"] = prog["end"] is not None and rng.random() < 0.4
    if rng.random() < 0.15:
        times = sorted({i["t"] for i in prog["initial"]}) or [0]
        prog["stash"] = [{"t": rng.choice(times), "to": rng.randrange(prog["n_entities"]), "k": rng.randrange(prog["n_kinds"]),
                          "daemon": rng.random() < 0.1} for _ in range(rng.randint(1, 4))]
    # events built and scheduled from outside while the run is paused (control mode): they are younger than
    # everything created so far and older than everything created after the run continues
    if prog["mode"] == "control" and rng.random() < 0.3:
        from simkit.scriptprog import DT_CHOICES_NS
        prog["inject"] = [{"after": rng.choice([0, 1, 1, 2, 3, 5, 8, 13]),
                           # events cancelled from outside during the pause (registry positions, mod its length then)
                           "cancel": [rng.randrange(1000) for _ in range(rng.choice([0, 0, 0, 1, 2]))],
                           "events": [{"dt": rng.choice(DT_CHOICES_NS + [-1, -1_000]), "to": rng.randrange(prog["n_entities"]),
                                       "k": rng.randrange(prog["n_kinds"]), "daemon": rng.random() < 0.1}
                                      for _ in range(rng.randint(1, 3))]}
                          for _ in range(rng.randint(1, 3))]
        prog["inject_cont"] = rng.choice(["resume", "resume", "step", "step", "run"])
        prog["inject_step"] = rng.choice([1, 1, 2, 5])
    return prog


def _validate(sc):
    n, k = sc.get("n_entities", 0), sc.get("n_kinds", 0)
    if n < 1 or k < 1:
        raise InvalidScenario("no entities")

    n_prep = len(sc.get("prepared", []))

    def ok_emit(e):
        if "prep" in e:
            return 0 <= e["prep"] < n_prep
        return 0 <= e["to"] < n and 0 <= e["k"] < k

    for pe in sc.get("stash", []):
        if not (0 <= pe["to"] < n and 0 <= pe["k"] < k) or pe["t"] < 0:
            raise InvalidScenario("stash out of range")
    for pe in sc.get("prepared", []):
        if not (0 <= pe["to"] < n and 0 <= pe["k"] < k) or pe["t"] < 0:
            raise InvalidScenario("prepared out of range")

    for key, h in sc["handlers"].items():
        for e in h.get("emits", []) + h.get("sched", []) + [x for s in h.get("steps", []) for x in s.get("emits", [])]:
            if not ok_emit(e):
                raise InvalidScenario("emit out of range")
        ru = h.get("reuse")
        if ru and ru.get("to") is not None and not 0 <= ru["to"] < n:
            raise InvalidScenario("reuse target out of range")
        for e in h.get("crash", []) + h.get("uncrash", []):
            if not 0 <= e < n:
                raise InvalidScenario("crash out of range")
    for i in sc["initial"]:
        if not ok_emit(i) or i["t"] < 0:
            raise InvalidScenario("initial out of range")
    if sc.get("inject") and sc.get("mode") != "control":
        raise InvalidScenario("injection needs the control surface")
    if sc.get("inject_cont", "resume") not in ("resume", "step", "run") or sc.get("inject_step", 1) < 1:
        raise InvalidScenario("bad continuation")
    for inj in sc.get("inject", []):
        if inj["after"] < 0 or any(not ok_emit(e) or "prep" in e for e in inj["events"]):
            raise InvalidScenario("bad injection")
    st = sc.get("start", 0)
    if st < 0 or (sc.get("end") is not None and sc["end"] < st):
        raise InvalidScenario("run window ends before it starts")
    if sc.get("use_duration") and sc.get("end") is None:
        raise InvalidScenario("duration needs an end")
    if sc.get("mode") == "fast" and sc.get("end") is None:
        raise InvalidScenario("fast loop needs end_time")


def run_engine(sc):
    """Run the program on the real engine; returns (runner, summary, sim)."""
    from happysimulator.core.event import Event as _E

    pr = ProgramRunner(sc)
    end = sc.get("end")
    # perturbation: unrelated earlier activity in the interpreter
    for _ in range(sc.get("perturb", 0)):
        _E(time=Instant(0), event_type="noise", target=pr.entities[0])
    stash_events = []
    if sc.get("stash"):
        # an earlier, completed simulation whose handler builds Event objects that outlive it
        from happysimulator.core.entity import Entity as _Ent

        class _Planner(_Ent):
            def handle_event(self, event):
                for st in sc["stash"]:
                    stash_events.append(pr.new_event(st["t"], st["to"], st["k"], st.get("daemon", False)))
                return None

        planner = _Planner("planner")
        aux = Simulation(entities=[planner])
        aux.schedule(_E(time=Instant(0), event_type="plan", target=planner))
        aux.run()
    cb = sc.get("create_before_sim", 0)
    n_before = len(sc["initial"]) if cb is True else int(cb or 0)
    pr.create_initial(0, n_before)          # built before the Simulation object exists
    st = sc.get("start", 0)
    kw = {"start_time": Instant(st)} if st else {}
    if sc.get("use_duration"):
        kw["duration"] = Duration(end - st)          # the same run window, stated as a length
    elif end is not None:
        kw["end_time"] = Instant(end)
    sim = Simulation(entities=pr.entities, **kw)
    pr.sim = sim
    pr.create_initial(n_before, None)       # built afterwards (the usual way)
    pr.create_prepared()                    # built now, handed to the engine by a handler during the run
    evs = pr.initial_in_schedule_order()
    if evs:
        if len(evs) % 2:
            sim.schedule(evs)
        else:
            for e in evs:
                sim.schedule(e)
    if stash_events:
        sim.schedule(stash_events)
    pr.apply_late_cancels()
    pr.injected = {}
    pr.injected_cancels = {}
    if sc.get("mode") == "control" and sc.get("inject"):
        ctl = sim.control
        plan: dict[int, list] = {}
        cancels: dict[int, list] = {}
        for inj in sc["inject"]:
            plan.setdefault(inj["after"], []).extend(inj["events"])
            cancels.setdefault(inj["after"], []).extend(inj.get("cancel", []))
        n = [0]

        def hook(ev):
            n[0] += 1
            if n[0] in plan:
                ctl.pause()

        ctl.on_event(hook)
        if 0 in plan:
            ctl.pause()
        summary = sim.run()
        guard = 0
        while ctl.is_paused:
            guard += 1
            if guard > 400:
                raise RuntimeError("harness: paused more often than pauses and steps were requested")
            emits = plan.pop(n[0], None)
            if emits is not None:
                now = pr.entities[0].now.nanoseconds
                for idx in cancels.get(n[0], []):
                    if pr.registry:
                        pr.registry[idx % len(pr.registry)].cancel()
                pr.injected_cancels[n[0]] = cancels.get(n[0], [])
                evs = [pr.new_event(now + e["dt"], e["to"], e["k"], e.get("daemon", False)) for e in emits]
                pr.injected[n[0]] = emits
                if len(evs) % 2:
                    sim.schedule(evs)
                else:
                    for e in evs:
                        sim.schedule(e)
            # how the run is continued after the pause must not matter: resume(), step(k) (pauses again k
            # deliveries later, then resumed) or a plain run()
            how = sc.get("inject_cont", "resume") if emits is not None else "resume"
            if how == "step":
                summary = ctl.step(sc.get("inject_step", 1))
            elif how == "run":
                summary = sim.run()
            else:
                summary = ctl.resume()
        return pr, summary, sim
    if sc.get("mode") == "control":
        sim.control.on_event(lambda e: None)
    summary = sim.run()
    return pr, summary, sim


def compare(sc, pr, summary, ref) -> tuple[str | None, str]:
    end = sc.get("end")
    if pr.problems:
        return pr.problems[0]
    E = pr.log
    last = sc.get("start", 0)
    for uid, step, clk, evt in E:
        if step < 0 and clk != evt:
            return "clock-ne-event-time", f"uid={uid} delivered with clock={clk} but event.time={evt}"
        if clk < last:
            return "clock-backwards", f"clock went from {last} to {clk}"
        last = clk
    Ef = [(u, s, c) for (u, s, c, _) in E if end is None or c <= end]
    R = ref.log
    seen = set()
    for x in Ef:
        key = (x[0], x[1])
        if key in seen:
            return "delivered-twice", f"delivery {key} occurs twice"
        seen.add(key)
    n = min(len(Ef), len(R))
    for i in range(n):
        if Ef[i] != R[i]:
            e, r = Ef[i], R[i]
            if e[2] != r[2]:
                if (r[0], r[1]) not in seen:
                    return "missing-delivery", f"position {i}: reference delivers {r}, engine never does (engine has {e})"
                return "order/time", f"position {i}: engine {e} vs reference {r}"

            def phase(x):
                if x[1] > 0:
                    return "cont"
                return ref.registry[x[0]]["phase"]

            if (r[0], r[1]) not in seen:
                return "missing-delivery", f"position {i}: reference delivers {r}, engine never does"
            return (f"order/tie/{phase(e)}-before-{phase(r)}",
                    f"position {i} t={e[2]}ns: engine delivers {e[:2]} but creation order says {r[:2]}")
    if len(Ef) < len(R):
        r = R[len(Ef)]
        kind = "autoterm-early" if end is None else "missing-delivery"
        return kind, f"engine stopped after {len(Ef)} deliveries; reference continues with {r}"
    if len(Ef) > len(R):
        e = Ef[len(R)]
        kind = "autoterm-late" if end is None else "extra-delivery"
        return kind, f"engine delivered {e} after the reference had finished ({len(R)} deliveries)"
    # counters (exact only in auto-termination mode: with an end_time the engine may process one event past it)
    if end is None:
        if summary.total_events_processed != ref.processed:
            return "counter/total_events_processed", f"{summary.total_events_processed} != {ref.processed}"
        if summary.events_cancelled != ref.cancelled_popped:
            return "counter/events_cancelled", f"{summary.events_cancelled} != {ref.cancelled_popped}"
    return None, ""


def run(sc):
    _validate(sc)
    try:
        pr, summary, sim = run_engine(sc)
    except Exception as exc:  # the harness only uses the public API with valid arguments
        import traceback

        tb = traceback.extract_tb(exc.__traceback__)
        inner = tb[-1]
        if repo.REPO in inner.filename:
            return result(sig=f"exception/{type(exc).__name__}/{inner.name}", msg=repr(exc))
        raise
    ref = RefEngine(sc, injections=pr.injected, injected_cancels=pr.injected_cancels)
    ref.run()
    sig, msg = compare(sc, pr, summary, ref)
    h = hashlib.blake2b(repr(pr.log).encode(), digest_size=12).hexdigest()
    has_gen = any(s > 0 for (_, s, _, _) in pr.log)
    counters = {
        "probe.tie_prerun_vs_inrun": int(_tie_pre_in(ref)),
        "probe.cancelled_skipped": int(ref.cancelled_popped > 0),
        "probe.past_discarded": int(ref.discarded_past > 0),
        "probe.daemon_left_pending": int(sc.get("end") is None and any(p["daemon"] for p in ref.pending)),
        "probe.generator_resumed": int(has_gen),
        "probe.crashed_target_skipped": int(ref.processed > len(ref.log)),
        "probe.events_created_before_simulation": int(0 < (len(sc["initial"]) if sc.get("create_before_sim") is True else int(sc.get("create_before_sim") or 0)) < len(sc["initial"])),
        "probe.cancelled_after_schedule": int(any(i.get("cancel") == "late" for i in sc["initial"])),
        "probe.event_object_retimed_and_returned": int(any(x[1] < -1 for x in ref.log)),
        "probe.events_built_in_an_earlier_run_tied_with_initial": int(bool(sc.get("stash")) and _stash_tie(sc, ref)),
        "probe.injected_while_paused_tied_with_inrun_event": int(_inject_tie(ref)),
        "probe.prepared_event_tied_with_inrun_event": int(_prep_tie(ref)),
        "probe.nonzero_start_with_duration": int(bool(sc.get("start")) and bool(sc.get("use_duration"))),
        "probe.event_before_start_time_discarded": int(bool(sc.get("start")) and ref.discarded_past > 0),
        f"mode.{sc.get('mode')}": 1,
        "deliveries_past_end_time_observed": sum(1 for x in pr.log if sc.get("end") is not None and x[2] > sc["end"]),
    }
    state = repr((sc.get("mode"), sc.get("end") is None, min(ref.tie_groups, 5), ref.cancelled_popped > 0,
                  any(i.get("daemon") for i in sc["initial"]), has_gen))
    return result(
        sig=f"C01/{sig}" if sig else None, msg=msg, digest=h,
        nontrivial=len(ref.log) >= 3 and ref.tie_groups >= 1,
        counters=counters, sim_s=ref.now / 1e9 if ref.now < 10**13 else 0.0, deliveries=len(pr.log),
        klass=sc.get("mode", "?"), state=state,
    )


def _stash_tie(sc, ref) -> bool:
    n = len(sc.get("stash", []))
    by_t = {}
    for uid, step, t in ref.log:
        if step < 0:
            by_t.setdefault(t, set()).add("stash" if uid < n else "other")
    return any(len(v) == 2 for v in by_t.values())


def _inject_tie(ref) -> bool:
    by_t = {}
    for uid, step, t in ref.log:
        by_t.setdefault(t, set()).add("cont" if step > 0 else ref.registry[uid]["phase"])
    return any("paused" in s and ({"inrun", "cont"} & s) for s in by_t.values())


def _prep_tie(ref) -> bool:
    """Was a prepared (built pre-run, handed over in-run) event delivered at the same instant as an in-run event?"""
    prep = {r["uid"] for r in getattr(ref, "prepared", [])}
    if not prep:
        return False
    by_t = {}
    for uid, step, t in ref.log:
        kind = "prep" if (uid in prep and step < 0) else ("cont" if step > 0 else ref.registry[uid]["phase"])
        by_t.setdefault(t, set()).add(kind)
    return any("prep" in s and ({"inrun", "cont"} & s) for s in by_t.values())


def _tie_pre_in(ref) -> bool:
    """Did a pre-run event and an in-run event share a delivery timestamp?"""
    by_t = {}
    for uid, step, t in ref.log:
        ph = "cont" if step > 0 else ref.registry[uid]["phase"]
        by_t.setdefault(t, set()).add(ph)
    return any("prerun" in s and len(s) > 1 for s in by_t.values())
