"""C10 — rate limiters never over-admit; time_until_available is truthful.

RateLimitedEntity (every policy), Inductor, DistributedRateLimiter and
NullRateLimiter run inside the real engine in front of a recording sink.
Arrival schedules are generated (dense, sparse, bursts at one instant, exactly
on window / refill boundaries and 1 ns either side, arrivals placed at
now + time_until_available +-1 ns by an in-run driver).  Oracles: per-delivery
accounting (forward | queue | drop, exactly one), time_until_available
truthfulness on copies of the live policy at every arrival and poll, exact
integer-nanosecond interval bounds over the forwarded timestamps, arrival-order
forwarding, conservation, bounded drain (no stall, no frozen-clock poll spin).
DESIGN.md section 5, C10.
"""
from __future__ import annotations

import collections

from simkit import repo

repo.activate()

from happysimulator.components.datastore.kv_store import KVStore  # noqa: E402
from happysimulator.components.rate_limiter.distributed import DistributedRateLimiter  # noqa: E402
from happysimulator.components.rate_limiter.inductor import Inductor  # noqa: E402
from happysimulator.components.rate_limiter.null import NullRateLimiter  # noqa: E402
from happysimulator.components.rate_limiter.rate_limited_entity import RateLimitedEntity  # noqa: E402
from happysimulator.core.entity import Entity  # noqa: E402
from happysimulator.core.event import Event, ProcessContinuation  # noqa: E402
from happysimulator.core.simulation import Simulation  # noqa: E402
from happysimulator.core.temporal import Instant  # noqa: E402

from simkit import c10_model as M  # noqa: E402
from simkit.rng import seed_globals  # noqa: E402
from simkit.world import InvalidScenario, Monitor, Violation, result, run_sim  # noqa: E402

PROPERTY = "C10"
RUNS = {"quick": 8000, "thorough": 4_000_000}
WALL = {"quick": 50, "thorough": 1500}
BATCH = {"quick": 50, "thorough": 500}
SELFTEST_RUNS = 12
RULE = (
    "each case = one limiter configuration (RateLimitedEntity with token/leaky/sliding/fixed/adaptive policy and generated "
    "parameters incl. window sizes that are not exact in binary and rates 3, 7, 0.3; queue capacity 0/default/small; or an "
    "Inductor, 1-3 DistributedRateLimiters on one KVStore, or a NullRateLimiter) plus an arrival program of 3-200 requests "
    "(segments: dense, sparse, burst at one instant, 0-2 ns adjacent, aligned to window boundaries -2..+2 ns, exactly one "
    "period apart +-1 ns, placed at now+time_until_available +-1 ns) delivered pre-run or by an in-run driver (early or late "
    "event creation, which decides same-instant arrival/poll order), adaptive feedback sequence and delay, daemon-flagged requests "
    "(~40 % of runs) and sender-side cancellation of buffered requests (30-55 % of queueing runs); non-trivial = >= 3 "
    "requests delivered and at least one request was not forwarded at its arrival (queued, dropped or denied); distinct = "
    "distinct engine delivery digests"
)
STATE_MEASURE = ("distinct tuples (limiter kind, policy, queue-capacity class, arrival mode, saw queue, saw drop, saw poll "
                 "denial, several poll-forwards at one instant, arrival tied with a poll, arrival on/next to a boundary, "
                 "time_until_available outcomes seen {zero, 1 ns guard, positive}, max wait-iteration steps, adaptive rate "
                 "hit min/max)")
REAL = [
    "happysimulator.components.rate_limiter.policy.{TokenBucket,LeakyBucket,SlidingWindow,FixedWindow,Adaptive}Policy",
    "happysimulator.components.rate_limiter.rate_limited_entity.RateLimitedEntity",
    "happysimulator.components.rate_limiter.inductor.Inductor",
    "happysimulator.components.rate_limiter.distributed.DistributedRateLimiter",
    "happysimulator.components.rate_limiter.null.NullRateLimiter",
    "happysimulator.components.datastore.kv_store.KVStore (backing store of the distributed limiter)",
    "happysimulator.components.queue_policy.FIFOQueue",
    "happysimulator.core.simulation.Simulation (instrumented loop), EventHeap, Event/ProcessContinuation, Instant/Duration",
]
STUBS = [
    "recording sink entity (harness; delivers generated success/failure feedback to the adaptive policy, optionally delayed)",
    "arrival driver entity (harness; creates arrival events in-run, can place them at now+time_until_available+-1ns)",
    "integer-nanosecond reference bounds and accounting model (simkit/c10_model.py; oracle)",
]
ASSUMPTIONS = [
    "sliding window: 'at most N in any window' is read as any half-open window [a, a+W) (weaker than closed windows; the "
    "statement is silent about the ends)",
    "fixed window: an admission exactly on a boundary instant k*W may be attributed to either adjacent aligned window (the "
    "float window size is ambiguous by <1 ns there); '2N in any window-length interval' is read for half-open intervals",
    "window sizes are decimals that are whole numbers of nanoseconds (0.1, 0.3, 0.007, and 4.1, 2.01, 1.001, 0.00401 ... whose "
    "float value times 1e9 truncates to 1 ns less); the sliding bound is judged against the configured window as an exact "
    "rational, not against the truncated nanosecond value; rates may be arbitrary (3, 7, 0.3)",
    "token/adaptive bucket bounds are evaluated exactly (rationals) with a slack of 1e-9 token (1e-6 for adaptive), because "
    "the repo accumulates tokens in binary floating point; an over-admission of >= 1 ns * rate tokens is still caught for rate >= 1/s",
    "adaptive: the bound over [a,b] uses R = the largest current_rate in effect at any moment of the closed interval "
    "(the policy refills retroactively at its current rate), bucket = R*window_size; rate must stay within [min,max] after every delivery",
    "configurations whose bucket can never hold one token (token capacity < 1, adaptive min_rate*window_size < 1) are not "
    "generated: no admitting instant exists there and 'reaches an admitting instant' cannot be judged (see report)",
    "'within a few steps' = at most 4 successive waits of the returned duration",
    "time_until_available is probed on copies of the live policy after every arrival and poll delivered to the limiter; "
    "'no acquire before the wait elapsed' is sampled (now, now+1, midpoint, now+w-1 and two keyed random instants)",
    "Inductor and DistributedRateLimiter are judged on conservation, exactly-once, arrival order (Inductor) and drain "
    "liveness only; the statement gives them no admission bound (the distributed read-modify-write race is documented)",
    "a queue left non-empty when the event heap runs dry, more than 8 polls per queued request, or more than "
    "8n+300 deliveries at one instant count as a stalled drain",
    "simulated times stay below 2^53 ns (base offsets up to 10^6 s), where float seconds still resolve 1 ns",
    "requests may carry daemon=True (background traffic): they are requests like any other and are counted against an "
    "external ledger of what the harness sent; runs use an explicit end_time, so daemon events are delivered",
    "an entity may be renamed (Entity.name reassigned) between construction and run; same oracles",
    "a sender may retract (Event.cancel()) a request only while it is buffered inside the limiter; the statement says nothing "
    "about retracted requests, so any of these outcomes is accepted for them: forwarded like any other (what HEAD does), "
    "discarded at the head of the queue and counted as dropped, or forwarded and discarded by the engine downstream; "
    "non-retracted requests keep exactly-once, arrival order and the no-stall requirement",
]
EXPECTED_PROBES = [
    "probe.arrival_on_window_boundary", "probe.arrival_1ns_before_boundary", "probe.arrival_1ns_after_boundary",
    "probe.arrival_on_predicted_instant", "probe.arrival_1ns_before_predicted", "probe.arrival_1ns_after_predicted",
    "probe.queue_full_drop", "probe.queued", "probe.poll_denied", "probe.poll_drained_multiple",
    "probe.arrival_tied_with_poll", "probe.arrival_before_poll_same_instant", "probe.arrival_while_queue_nonempty",
    "probe.tua_zero_checked", "probe.tua_positive_checked", "probe.tua_guard_1ns", "probe.wait_iteration_multi_step",
    "probe.adaptive_rate_changed", "probe.adaptive_hit_min", "probe.adaptive_hit_max", "probe.adaptive_feedback_delayed",
    "probe.burst_same_instant", "probe.distributed_overlapping_requests", "probe.distributed_rejected",
    "probe.distributed_sequential_bound_checked", "probe.distributed_sequential_bound_checked_with_latency",
    "probe.distributed_latency_forward_delivered", "probe.fixed_boundary_poll_drained",
    "probe.fixed_inexact_window_boundary_poll_drained", "probe.inductor_subns_interval_poll_drained",
    "probe.sliding_truncated_window_expiry_attempt", "probe.inductor_queued", "probe.large_base_offset",
    "probe.daemon_request_delivered", "probe.daemon_request_queued", "probe.distributed_daemon_request",
    "probe.renamed_entity", "probe.renamed_entity_poll_delivered",
    "probe.buffered_request_cancelled", "probe.cancelled_request_forwarded_by_poll", "probe.cancelled_head_with_backlog",
]
SHRINK_SKIP = ("kind", "type", "mode")

NS = M.NS
POLICIES = ["token", "leaky", "sliding", "fixed", "adaptive"]
RATES = [3.0, 7.0, 0.3, 1.0, 10.0, 100.0, 2.5, 1000.0, 0.7, 13.0, 5.0]
WINDOWS = [0.1, 0.3, 1.0, 0.25, 0.007, 0.05, 0.7, 1.1, 2.5, 0.29, 0.6, 0.001]
EXACT_WINDOWS = [0.25, 0.5, 1.0, 0.125, 2.0, 0.0625]
# decimals whole in nanoseconds whose float value times 1e9 falls just BELOW the integer, so the repo's truncating
# conversions (Instant - float, Duration.from_seconds) see a window 1 ns shorter than the configured one
TRUNC_WINDOWS = [4.1, 2.01, 1.001, 8.2, 0.00013, 0.00104, 0.00401, 0.0157, 0.00836]
assert all(int(w * 1e9) == round(w * 1e9) - 1 for w in TRUNC_WINDOWS)
QUEUE_CAPS = [0, None, 1, 2, 3, 5, 50]
BASES = [0, 0, 0, 0, 0, 0, 1_000 * NS, 86_400 * NS, 1_000_000 * NS]
DEFAULT_CAP = {"entity": 1000, "inductor": 10_000}


# --------------------------------------------------------------------------
# generation
# --------------------------------------------------------------------------

def _gen_ops(rng, n, period, win, allow_tua=True):
    ops = []
    segs = ["dense", "dense", "sparse", "burst", "ns", "boundary", "boundary", "period", "tua", "tua"]
    if not allow_tua:
        segs = [s for s in segs if s != "tua"]
    while len(ops) < n:
        seg = rng.choice(segs)
        m = rng.randint(1, 8)
        for i in range(m):
            if seg == "dense":
                ops.append({"k": "g", "v": rng.randint(0, max(1, period // 4))})
            elif seg == "sparse":
                ops.append({"k": "g", "v": rng.randint(period, 4 * period)})
            elif seg == "burst":
                ops.append({"k": "g", "v": (rng.randint(0, period) if i == 0 else 0)})
            elif seg == "ns":
                ops.append({"k": "g", "v": rng.choice([0, 1, 1, 2])})
            elif seg == "boundary":
                ops.append({"k": "w", "v": rng.choice([-1, 0, 0, 0, 1, -2, 2])})
            elif seg == "period":
                ops.append({"k": "g", "v": max(0, win + rng.choice([-1, 0, 0, 1]))})
            else:
                ops.append({"k": "t", "v": rng.choice([-1, 0, 0, 0, 1])})
    return ops[:n]


def _gen_n(rng, tier):
    r = rng.random()
    if tier == "thorough" and r < 0.05:
        return rng.randint(150, 400)
    if r < 0.6:
        return rng.randint(3, 40)
    if r < 0.9:
        return rng.randint(40, 100)
    return rng.randint(100, 200)


def _gen_policy(rng, ptype, avoid):
    if ptype == "token":
        cap = rng.choice([1.0, 1.0, 2.0, 3.0, 5.0, 10.0, 2.5, 1.5])
        init = rng.choice([None, None, None, 0.0, round(rng.random() * cap, 2), cap])
        return {"type": "token", "capacity": cap, "rate": rng.choice(RATES), "initial": init}
    if ptype == "leaky":
        return {"type": "leaky", "rate": rng.choice(RATES)}
    if ptype == "sliding":
        return {"type": "sliding", "window": rng.choice(WINDOWS + TRUNC_WINDOWS), "max": rng.choice([1, 1, 2, 3, 5, 10])}
    if ptype == "fixed":
        return {"type": "fixed", "window": rng.choice(WINDOWS + EXACT_WINDOWS[:3] + TRUNC_WINDOWS[:5]), "n": rng.choice([1, 1, 2, 3, 5])}
    w = rng.choice([1.0, 1.0, 0.5, 2.0, 0.1, 0.3])
    mn = {1.0: [1.0, 2.0, 5.0], 0.5: [2.0, 3.0, 10.0], 2.0: [0.5, 1.0, 3.0], 0.1: [10.0, 20.0, 50.0],
          0.3: [4.0, 5.0, 10.0]}[w]
    mn = rng.choice(mn)
    mx = mn * rng.choice([1.0, 2.0, 5.0, 10.0, 30.0])
    init = rng.choice([mn, mx, (mn + mx) / 2, round(mn + rng.random() * (mx - mn), 3)])
    return {"type": "adaptive", "window": w, "min": mn, "max": mx, "initial": init,
            "step": rng.choice([None, None, 0.5, 1.0, 3.0, mx]), "factor": rng.choice([0.5, 0.9, 0.1, 0.7])}


def _decorate(rng, sc, period):
    """Daemon-flagged requests (background traffic is a request like any other) in ~40 % of the runs, and sender-side
    retraction (Event.cancel()) of requests while they are buffered in ~30 % of the queueing runs."""
    ops = sc["ops"]
    r = rng.random()
    if r < 0.4:
        p = 1.0 if r < 0.08 else rng.choice([0.1, 0.3, 0.6])
        for o in ops:
            if rng.random() < p:
                o["d"] = 1
    if sc["kind"] in ("entity", "inductor") and sc.get("queue_cap") != 0 and rng.random() < (0.55 if sc["kind"] == "inductor" else 0.3):
        k = rng.choice([1, 1, 2, 4, 8])
        n = len(ops)
        # mostly near the end of the program: a retracted request with live ones behind it and no later arrival to
        # re-arm the drain is the interesting case
        pick = lambda: rng.randrange(n - max(1, n * 2 // 5), n) if rng.random() < 0.7 else rng.randrange(n)  # noqa: E731
        sc["cancels"] = [{"rid": pick(), "dt": rng.choice([0, 0, 1, period // 2, period, 3 * period, 10 * period])}
                         for _ in range(k)]
        if rng.random() < 0.5:      # end the program with a burst at one instant, so that a backlog exists at the end
            for o in ops[-rng.randint(2, min(8, n)):]:
                if o is not ops[0]:
                    o["k"], o["v"] = "g", 0
    if rng.random() < 0.25:     # renamed after construction, before the run
        sc["rename"] = {"suffix": rng.choice(["-renamed", "-renamed", "/b 2", "::x"]), "sink": rng.random() < 0.4,
                        "other": rng.random() < 0.4}
    return sc


def gen(rng, tier):
    sc = _gen(rng, tier)
    per = 1_000_000
    if sc["kind"] == "entity":
        per = M.build_policy(sc["policy"])[1]["period_ns"]
    elif sc["kind"] == "inductor":
        per = max(1_000, sum(o["v"] for o in sc["ops"] if o["k"] == "g") // max(1, len(sc["ops"])))
    return _decorate(rng, sc, per)


def _gen(rng, tier):
    r = rng.random()
    seed = rng.getrandbits(48)
    n = _gen_n(rng, tier)
    base = rng.choice(BASES)
    if r < 0.76:
        ptype = rng.choice(POLICIES)
        qcap = rng.choice(QUEUE_CAPS)
        mode = rng.choice(["prerun", "prerun", "chain", "chain", "chain_late"])
        # avoidance families (the recorded triggers cannot occur; the rest of the behaviour is still explored):
        #  noqueue     queue_capacity 0: nothing is ever queued, so nothing can be overtaken and no poll runs
        #  late-single arrivals are created at their own instant (a poll due then runs first) and the policy frees one
        #              slot at a time, so no arrival ever finds a free slot while requests wait
        # (the former "exactwin" family only dodged the fixed-window float defect, repaired in 08d61f0: folded back)
        avoid = ""
        if rng.random() < 0.4:
            avoid = rng.choice(["noqueue", "late-single", "late-single"])
            if ptype == "adaptive":
                avoid = "noqueue"
        pol = _gen_policy(rng, ptype, bool(avoid))
        if avoid == "noqueue":
            qcap = 0
        elif avoid == "late-single":
            mode = "chain_late"
            if ptype == "fixed":
                pol["n"] = 1
            elif ptype == "sliding":
                pol["max"] = 1
        _, info = M.build_policy(pol)
        sc = {"kind": "entity", "seed": seed, "avoid": avoid, "policy": pol, "queue_cap": qcap, "mode": mode,
              "base_ns": base, "ops": _gen_ops(rng, n, info["period_ns"], info["win_ns"])}
        if ptype == "adaptive":
            style = rng.random()
            if style < 0.2:
                fb = [1]
            elif style < 0.4:
                fb = [0]
            else:
                p_ok = rng.choice([0.2, 0.5, 0.8, 0.95])
                fb = [1 if rng.random() < p_ok else rng.choice([0, 0, 2]) for _ in range(rng.randint(2, 24))]
            sc["fb"] = fb
            sc["fb_delay_ns"] = rng.choice([0, 0, 1, 1_000, 1_000_000, 50_000_000, info["period_ns"]])
        return sc
    if r < 0.86:
        period = rng.choice([1_000, 1_000_000, 10_000_000, 100_000_000])
        ops = _gen_ops(rng, n, period, period, allow_tua=False)
        qcap = rng.choice(QUEUE_CAPS)
        # (the former "nospin" family only dodged the sub-nanosecond poll spin, repaired in adf5aad: folded back)
        avoid = rng.choice(["", "", "noqueue"])
        if avoid == "noqueue":
            qcap = 0          # nothing queued: nothing to overtake, no poll
        return {"kind": "inductor", "seed": seed, "avoid": avoid, "tau": rng.choice([0.001, 0.01, 0.1, 1.0, 5.0]),
                "queue_cap": qcap, "mode": rng.choice(["prerun", "chain", "chain_late"]),
                "base_ns": base, "ops": ops}
    if r < 0.96:
        k = rng.randint(1, 3)
        w = rng.choice([0.1, 0.3, 1.0, 0.25, 0.5])
        lat = rng.choice([(0.0, 0.0), (0.001, 0.001), (0.001, 0.001), (0.0002, 0.0005), (0.0, 0.001), (0.001, 0.0), (0.01, 0.02)])
        period = rng.choice([round(w * NS) // 4, round(w * NS) // 20, 1_000_000, 5_000_000, 40_000_000])
        ops = _gen_ops(rng, min(n, 80), max(1, period), round(w * NS), allow_tua=False)
        for o in ops:
            o["to"] = rng.randrange(k)
        return {"kind": "distributed", "seed": seed, "n_limiters": k, "limit": rng.choice([1, 2, 3, 5, 10]), "window": w,
                "read_lat": lat[0], "write_lat": lat[1], "threshold": rng.choice([0.8, 1.0, 0.5]),
                "shared_sink": rng.random() < 0.5, "base_ns": base, "ops": ops}
    return {"kind": "null", "seed": seed, "mode": rng.choice(["prerun", "chain", "chain_late"]), "base_ns": base,
            "ops": _gen_ops(rng, min(n, 60), 1_000_000, 1_000_000, allow_tua=False)}


# --------------------------------------------------------------------------
# harness entities
# --------------------------------------------------------------------------

class _Sink(Entity):
    def __init__(self, name, h):
        super().__init__(name)
        self.h = h

    def handle_event(self, ev):
        return self.h.on_sink(self, ev)


class _Driver(Entity):
    def __init__(self, h):
        super().__init__("driver")
        self.h = h

    def handle_event(self, ev):
        return self.h.on_driver(ev)


def _op_time(op, prev, win, policy, live):
    kind = op.get("k", "g")
    v = op.get("v", 0)
    if not isinstance(v, int) or isinstance(v, bool):
        raise InvalidScenario("op value must be an integer number of nanoseconds")
    if kind == "g":
        t = prev + v
    elif kind == "t" and live and policy is not None:
        t = prev + M._call(M.clone(policy).time_until_available, Instant(prev)).nanoseconds + v
    elif kind in ("w", "t"):
        t = (prev // win + 1) * win + v
    else:
        raise InvalidScenario(f"unknown op {kind!r}")
    return max(t, prev)


def _apply_rename(rn, lims, sinks, others) -> bool:
    if not rn:
        return False
    if not isinstance(rn, dict):
        raise InvalidScenario("rename")
    suffix = rn.get("suffix", "-renamed")
    if not isinstance(suffix, str) or not suffix:
        raise InvalidScenario("rename suffix")
    for x in lims:
        x.name = x.name + suffix
    if rn.get("sink"):
        for x in sinks:
            x.name = x.name + suffix
    if rn.get("other"):
        for x in others:
            x.name = x.name + suffix
    return True


class _QueueingRun:
    """RateLimitedEntity / Inductor / NullRateLimiter in front of one sink."""

    def __init__(self, sc):
        self.sc = sc
        self.kind = sc["kind"]
        self.ops = sc.get("ops", [])
        if not self.ops:
            raise InvalidScenario("no arrivals")
        self.n = len(self.ops)
        self.mode = sc.get("mode", "prerun")
        if self.mode not in ("prerun", "chain", "chain_late"):
            raise InvalidScenario("mode")
        self.base = sc.get("base_ns", 0)
        if not isinstance(self.base, int) or self.base < 0 or self.base > 2_000_000 * NS:
            raise InvalidScenario("base")
        self.sink = _Sink("sink", self)
        self.driver = _Driver(self)
        self.policy = None
        self.info = None
        self.probe = None
        qcap = sc.get("queue_cap")
        if qcap is not None and (not isinstance(qcap, int) or qcap < 0):
            raise InvalidScenario("queue_cap")
        kw = {} if qcap is None else {"queue_capacity": qcap}
        if self.kind == "entity":
            self.policy, self.info = M.build_policy(sc.get("policy", {}))
            self.cname = type(self.policy).__name__
            self.lim = RateLimitedEntity("limiter", self.sink, self.policy, **kw)
            self.poll_type = "rate_limit_poll::limiter"
            self.probe = M.TuaProbe(self.info, sc.get("seed", 0), self.cname)
            self.win = self.info["win_ns"]
            self.cap = DEFAULT_CAP["entity"] if qcap is None else qcap
        elif self.kind == "inductor":
            tau = sc.get("tau", 1.0)
            if not isinstance(tau, (int, float)) or tau <= 0:
                raise InvalidScenario("tau")
            self.cname = "Inductor"
            self.lim = Inductor("limiter", self.sink, time_constant=tau, **kw)
            self.poll_type = "inductor_poll::limiter"
            self.win = 1_000_000
            self.cap = DEFAULT_CAP["inductor"] if qcap is None else qcap
        else:
            self.cname = "NullRateLimiter"
            self.lim = NullRateLimiter("limiter", self.sink)
            self.poll_type = None
            self.win = 1_000_000
            self.cap = 0
        self.ecls = type(self.lim).__name__
        # entity renamed between construction and run (one attribute assignment; the library does it itself for cloned
        # links): a legal configuration, judged by the unchanged oracles.  The poll label follows the CURRENT name.
        self.renamed = _apply_rename(sc.get("rename"), [self.lim], [self.sink], [])
        if self.poll_type is not None:
            self.poll_type = self.poll_type.split("::")[0] + "::" + self.lim.name
        self.adaptive = self.info is not None and self.info["type"] == "adaptive"
        self.fb = [x for x in sc.get("fb", []) if x in (0, 1, 2, 3)] if self.adaptive else []
        self.fb_delay = sc.get("fb_delay_ns", 0) if self.adaptive else 0
        if not isinstance(self.fb_delay, int) or self.fb_delay < 0:
            raise InvalidScenario("fb_delay_ns")
        # observation state
        self.prev = (0, 0, 0, 0)
        self.prev_depth = 0
        self.refq = collections.deque()       # reference FIFO of queued rids
        self.pending = collections.deque()    # forward decisions not yet seen by the sink: (time, rid, path)
        self.arrived = []                     # rids in arrival (delivery) order
        self.arr_index = {}
        self.sink_log = []                    # (time, rid)
        self.sink_seen = set()
        self.dropped = []
        self.req_events = {}
        self.cancelled = set()                # rids retracted by the sender while buffered
        self.engine_discarded = []            # cancelled requests the limiter forwarded as the (cancelled) event itself
        self.cancel_plan = {}
        for c in sc.get("cancels", []) if self.kind in ("entity", "inductor") else []:
            rid, dt = c.get("rid"), c.get("dt", 0)
            if not isinstance(rid, int) or not isinstance(dt, int) or dt < 0 or not 0 <= rid < self.n:
                raise InvalidScenario("cancels")
            self.cancel_plan.setdefault(rid, []).append(dt)
        self.last_fwd_index = -1
        self.last_fwd_path = None
        self.last_fwd_rid = None
        self.n_polls = 0
        self.denied_at = (-1, 0)
        self.n_queued = 0
        self.n_fb = 0
        self.rate_samples = []
        self.predicted = None
        self.last_poll_t = None
        self.last_arr_t = None
        self.poll_fwd_at = collections.Counter()
        self.arr_at = collections.Counter()
        self.flags = collections.Counter()
        self.last_rate = self.policy.current_rate if self.adaptive else None

    # ---- driver -----------------------------------------------------------
    def _arrival(self, k, t):
        """The request event (daemon-flagged when the op says so: background traffic is a request like any other)
        followed by the sender's retraction events for it, if any."""
        ev = Event(time=Instant(t), event_type="req", target=self.lim, daemon=bool(self.ops[k].get("d")), context={"rid": k})
        self.req_events[k] = ev
        out = [ev]
        for dt in self.cancel_plan.get(k, ()):
            out.append(Event(time=Instant(t + dt), event_type="cancel", target=self.driver, context={"k": k}))
        return out

    def _tick(self, k, t, typ="tick"):
        return Event(time=Instant(t), event_type=typ, target=self.driver, context={"k": k})

    def initial_events(self):
        if self.mode == "prerun":
            evs, prev = [], self.base
            for k in range(self.n):
                prev = _op_time(self.ops[k], prev, self.win, None, False)
                evs.extend(self._arrival(k, prev))
            return evs
        t0 = _op_time(self.ops[0], self.base, self.win, None, False)
        if self.mode == "chain":
            a = self._arrival(0, t0)
            return a[:1] + [self._tick(0, t0)] + a[1:]
        return [self._tick(0, t0)]

    def on_driver(self, ev):
        k = ev.context["k"]
        now = ev.time.nanoseconds
        if ev.event_type == "cancel":
            # the sender retracts request k - only while it is buffered inside the limiter (public Event.cancel())
            if k in self.refq and k not in self.cancelled:
                self.req_events[k].cancel()
                self.cancelled.add(k)
                self.flags["cancelled_buffered"] = 1
            return None
        if self.mode == "chain":
            if k + 1 >= self.n:
                return None
            t = _op_time(self.ops[k + 1], now, self.win, self.policy, True)
            a = self._arrival(k + 1, t)
            return a[:1] + [self._tick(k + 1, t)] + a[1:]
        if ev.event_type == "tick":
            if self.probe is not None:      # state just before the arrival at this very instant
                self.probe.check(self.policy, ev.time, "just before an arrival")
            a = self._arrival(k, now)
            return a[:1] + [self._tick(k, now, "tock")] + a[1:]
        if k + 1 >= self.n:
            return None
        t = _op_time(self.ops[k + 1], now, self.win, self.policy, True)
        return [self._tick(k + 1, t)]

    # ---- sink -------------------------------------------------------------
    def on_sink(self, sink, ev):
        now = ev.time.nanoseconds
        if ev.event_type == "fb":
            self._apply_fb(ev.context["v"], ev.time)
            return None
        rid = ev.context.get("rid")
        if rid in self.sink_seen:
            raise Violation(f"C10/forwarded-twice/{self.ecls}/same-request",
                            f"request {rid} reached the downstream a second time at t={now}ns")
        if rid not in self.arr_index:
            raise Violation(f"C10/forwarded-unknown/{self.ecls}/never-arrived", f"downstream received request {rid!r} that never arrived")
        self.sink_seen.add(rid)
        self.sink_log.append((now, rid))
        if not self.pending:
            raise Violation(f"C10/forward-without-accounting/{self.ecls}/sink",
                            f"downstream received request {rid} at t={now}ns but the limiter's forwarded counter did not move")
        while self.pending[0][1] != rid and self.pending[0][1] in self.cancelled and len(self.pending) > 1:
            self.engine_discarded.append(self.pending.popleft()[1])     # acceptable: a retracted request died downstream
        t_dec, rid_exp, path = self.pending.popleft()
        if t_dec != now:
            raise Violation(f"C10/forward-wrong-time/{self.ecls}/{path}",
                            f"request {rid} admitted at t={t_dec}ns reached the downstream at t={now}ns")
        if rid_exp != rid:
            raise Violation(f"C10/forward-wrong-request/{self.ecls}/{path}",
                            f"{path} at t={now}ns should forward request {rid_exp} (head of the FIFO) but forwarded {rid}")
        idx = self.arr_index[rid]
        if idx < self.last_fwd_index:
            detail = "arrival-overtook-queue" if self.last_fwd_path == "arrival" else "poll-out-of-order"
            raise Violation(
                f"C10/forward-order/{self.ecls}/{detail}",
                f"request {rid} (arrival #{idx}) is forwarded at t={now}ns after request {self.last_fwd_rid} "
                f"(arrival #{self.last_fwd_index}), which was admitted on its {self.last_fwd_path} path while {rid} was still queued")
        self.last_fwd_index, self.last_fwd_path, self.last_fwd_rid = idx, path, rid
        if self.adaptive and self.fb:
            v = self.fb[self.n_fb % len(self.fb)]
            self.n_fb += 1
            if self.fb_delay == 0:
                self._apply_fb(v, ev.time)
                return None
            self.flags["fb_delayed"] = 1
            return [Event(time=Instant(now + self.fb_delay), event_type="fb", target=sink, context={"v": v})]
        return None

    def _apply_fb(self, v, now):
        if v == 1:
            M._call(self.policy.record_success, now)
        else:
            M._call(self.policy.record_failure, now, M.FAIL_REASON[v])

    # ---- monitor ----------------------------------------------------------
    def on_delivery(self, ev, mon):
        t = ev.time.nanoseconds
        if ev.target is self.lim:
            if self.kind == "null":
                self._on_null(ev, t)
            else:
                self._on_limiter(ev, t)
        if self.adaptive:
            r = self.policy.current_rate
            if not (self.info["min"] <= r <= self.info["max"]):
                side = "below-min" if r < self.info["min"] else "above-max"
                raise Violation(f"C10/adaptive-rate-out-of-range/AdaptivePolicy/{side}",
                                f"current_rate={r} outside [{self.info['min']}, {self.info['max']}] after {ev.event_type} at t={t}ns")
            if r != self.last_rate:
                self.flags["rate_changed"] = 1
                self.last_rate = r
            if r == self.info["min"] and self.flags["rate_changed"]:
                self.flags["hit_min"] = 1
            if r == self.info["max"] and self.flags["rate_changed"]:
                self.flags["hit_max"] = 1
            self.rate_samples.append((t, r))

    def _on_null(self, ev, t):
        rid = ev.context.get("rid")
        if ev.daemon:
            self.flags["daemon_req"] = 1
        self.arr_index[rid] = len(self.arrived)
        self.arrived.append(rid)
        self.pending.append((t, rid, "arrival"))

    def _on_limiter(self, ev, t):
        lim = self.lim
        st = lim.stats
        cur = (st.received, st.forwarded, st.queued, st.dropped)
        depth = lim.queue_depth
        d = tuple(a - b for a, b in zip(cur, self.prev))
        dd = depth - self.prev_depth
        self.prev, self.prev_depth = cur, depth
        e = self.ecls
        if self.predicted == t and self.info is not None and self.info.get("trunc_ns", self.win) != self.win:
            self.flags["trunc_expiry_attempt"] = 1     # an attempt exactly at oldest + trunc(W*1e9) ns, 1 ns inside the window
        if depth > self.cap:
            raise Violation(f"C10/queue-exceeds-capacity/{e}/depth", f"queue depth {depth} > queue_capacity {self.cap} at t={t}ns")
        if ev.event_type == self.poll_type:
            self.n_polls += 1
            if self.last_arr_t == t:
                self.flags["tie"] = 1
                self.flags["arr_before_poll"] = 1
            self.last_poll_t = t
            if d == (0, 1, 0, 0) and dd == -1:
                if not self.refq:
                    raise Violation(f"C10/accounting/{e}/poll-forward-from-empty-queue", f"poll at t={t}ns forwarded with an empty queue")
                head = self.refq.popleft()
                self.pending.append((t, head, "poll"))
                if head in self.cancelled:
                    self.flags["cancelled_forwarded"] = 1
                    if self.refq:
                        self.flags["cancelled_head_with_backlog"] = 1
                self.denied_at = (-1, 0)
                self.poll_fwd_at[t] += 1
                if self.info is not None and self.info["type"] == "fixed" and t % self.win == 0:
                    self.flags["fixed_boundary_drain"] = 1
                    if not float(self.win / NS / 0.0625).is_integer():
                        self.flags["fixed_inexact_boundary_drain"] = 1
                if self.kind == "inductor" and self.lim.estimated_rate > 1e9:
                    self.flags["inductor_subns_drain"] = 1
                if self.poll_fwd_at[t] == 2:
                    self.flags["multi_drain"] = 1
            elif d == (0, 0, 0, 0) and dd == 0:
                if depth > 0:
                    self.flags["poll_denied"] = 1
                    self.denied_at = (t, self.denied_at[1] + 1) if self.denied_at[0] == t else (t, 1)
                    if self.denied_at[1] > 24:
                        raise Violation(
                            f"C10/frozen-clock-spin/{self.cname}/poll-rearmed-at-now",
                            f"{self.denied_at[1]} consecutive polls were denied at t={t}ns with {depth} requests queued: "
                            f"each denied poll re-arms itself at now+0, the clock never advances")
            elif (self.cancelled and d[0] == 0 and d[2] == 0 and d[3] >= 1 and d[1] in (0, 1) and dd == -(d[1] + d[3])
                  and len(self.refq) >= -dd):
                # acceptable alternative for retracted requests: the limiter discards them at the head and counts a drop
                drops, fwd = d[3], d[1]
                for _ in range(-dd):
                    head = self.refq.popleft()
                    if head in self.cancelled and drops:
                        drops -= 1
                        self.dropped.append(head)
                        self.flags["cancelled_dropped_by_limiter"] = 1
                    elif fwd:
                        fwd -= 1
                        self.pending.append((t, head, "poll"))
                    else:
                        raise Violation(f"C10/accounting/{e}/poll-dropped-live-request",
                                        f"poll at t={t}ns dropped request {head}, which was not retracted by its sender")
                self.denied_at = (-1, 0)
            else:
                raise Violation(f"C10/accounting/{e}/poll-delta",
                                f"poll at t={t}ns changed (received, forwarded, queued, dropped, depth) by {d + (dd,)}")
            budget = 8 * self.n_queued + 4 * self.n_fb + (4 * len(self.arrived) if self.kind == "inductor" else 0) + 64
            if self.n_polls > budget:
                raise Violation(f"C10/drain-stalls/{self.cname}/excess-polls",
                                f"{self.n_polls} polls for {self.n_queued} queued requests by t={t}ns; queue depth {depth}")
            where = "after a poll"
        else:
            rid = ev.context.get("rid")
            if rid in self.arr_index:
                raise InvalidScenario("duplicate rid")
            self.arr_index[rid] = len(self.arrived)
            self.arrived.append(rid)
            self._arrival_probes(t)
            if ev.daemon:
                self.flags["daemon_req"] = 1
            if d[0] != 1:
                kind = "daemon-request" if ev.daemon else "received-delta"
                raise Violation(f"C10/accounting/{e}/{kind}",
                                f"request {rid} (daemon={ev.daemon}) delivered at t={t}ns changed the received counter by {d[0]}")
            if self.refq:
                self.flags["arr_nonempty"] = 1
            if d == (1, 1, 0, 0) and dd == 0:
                self.pending.append((t, rid, "arrival"))
            elif d == (1, 0, 1, 0) and dd == 1:
                self.refq.append(rid)
                self.n_queued += 1
                self.flags["queued"] = 1
                if ev.daemon:
                    self.flags["daemon_queued"] = 1
            elif d == (1, 0, 0, 1) and dd == 0:
                if depth < self.cap:
                    raise Violation(f"C10/dropped-with-room/{e}/arrival",
                                    f"request {rid} dropped at t={t}ns while the queue held {depth} < capacity {self.cap}")
                self.dropped.append(rid)
                self.flags["drop"] = 1
            else:
                raise Violation(f"C10/accounting/{e}/arrival-delta",
                                f"arrival {rid} at t={t}ns changed (received, forwarded, queued, dropped, depth) by {d + (dd,)}: "
                                f"not exactly one of forwarded / queued / dropped")
            if depth != len(self.refq):
                raise Violation(f"C10/accounting/{e}/depth", f"queue depth {depth} != reference {len(self.refq)} at t={t}ns")
            where = "after an arrival"
        if self.probe is not None:
            wn = self.probe.check(self.policy, ev.time, where)
            self.predicted = t + wn if wn > 0 else None

    def _arrival_probes(self, t):
        f = self.flags
        if self.last_poll_t == t:
            f["tie"] = 1
        self.last_arr_t = t
        self.arr_at[t] += 1
        if self.arr_at[t] == 3:
            f["burst"] = 1
        if self.kind == "entity" and self.info["type"] in ("fixed", "sliding", "adaptive"):
            r = t % self.win if self.info["type"] != "adaptive" else None
            if r == 0:
                f["on_b"] = 1
            elif r == self.win - 1:
                f["before_b"] = 1
            elif r == 1:
                f["after_b"] = 1
        if self.predicted is not None:
            dlt = t - self.predicted
            if dlt == 0:
                f["on_p"] = 1
            elif dlt == -1:
                f["before_p"] = 1
            elif dlt == 1:
                f["after_p"] = 1

    # ---- end of run -------------------------------------------------------
    def final(self, status):
        e = self.ecls
        while self.pending and self.pending[0][1] in self.cancelled:
            self.engine_discarded.append(self.pending.popleft()[1])      # retracted request died downstream: acceptable
        if self.pending:
            t_dec, rid, path = self.pending[0]
            return (f"C10/forwarded-not-delivered/{e}/{path}",
                    f"request {rid} counted as forwarded at t={t_dec}ns never reached the downstream")
        if status == "ok" and len(self.arrived) != self.n:
            return (f"C10/conservation/{e}/sent-not-delivered",
                    f"the harness sent {self.n} requests, only {len(self.arrived)} were delivered to the limiter")
        if self.kind != "null":
            st = self.lim.stats
            depth = self.lim.queue_depth
            if status == "ok" and st.received != self.n:
                return (f"C10/conservation/{e}/sent-vs-received",
                        f"{self.n} requests were sent to the limiter (external ledger) but its received counter is {st.received}")
            if st.received != len(self.arrived):
                return (f"C10/conservation/{e}/received", f"received={st.received} but {len(self.arrived)} requests were delivered")
            if st.received != st.forwarded + depth + st.dropped:
                return (f"C10/conservation/{e}/sum",
                        f"received={st.received} != forwarded={st.forwarded} + queued-now={depth} + dropped={st.dropped}")
            if st.forwarded != len(self.sink_log) + len(self.engine_discarded):
                return (f"C10/conservation/{e}/forwarded-counter", f"forwarded={st.forwarded} but the sink saw {len(self.sink_log)}")
            if not self.engine_discarded and [x.nanoseconds for x in self.lim.forwarded_times] != [x[0] for x in self.sink_log]:
                return (f"C10/conservation/{e}/forwarded-times", "forwarded_times differ from the instants the downstream saw")
            accounted = len(self.sink_seen) + len(self.dropped) + len(self.refq) + len(self.engine_discarded)
            if accounted != len(self.arrived) or (self.sink_seen & set(self.dropped)):
                return (f"C10/conservation/{e}/each-id-once", "a request is in none or in two of forwarded / queued / dropped")
            if status == "ok" and depth > 0:
                return (f"C10/drain-stalls/{self.cname}/queue-nonempty-at-quiescence",
                        f"event heap ran dry with {depth} requests still queued (no poll pending); last delivery t={self.t_last}ns")
        else:
            if len(self.sink_log) != len(self.arrived):
                return (f"C10/conservation/{e}/sum", f"{len(self.arrived)} arrived, {len(self.sink_log)} forwarded")
        if status == "budget":
            return (f"C10/drain-stalls/{self.cname}/delivery-budget",
                    f"run needed more than the delivery budget for {self.n} requests ({self.n_polls} polls)")
        ts = [x[0] for x in self.sink_log]
        if self.kind == "entity":
            i = self.info
            t = i["type"]
            if t == "token":
                b = M.bound_token(ts, i["cap"], i["rate"])
            elif t == "leaky":
                b = M.bound_leaky(ts, i["rate"])
            elif t == "sliding":
                b = M.bound_sliding(ts, i["win_exact"], i["n"])
            elif t == "fixed":
                b = M.bound_fixed(ts, i["win_ns"], i["n"])
            else:
                b = M.bound_adaptive(ts, i["window_s"], self.rate_samples, i["initial"])
            if b:
                return (f"C10/bound/{self.cname}/{b[0]}", b[1])
        return None


def _run_queueing(sc):
    h = _QueueingRun(sc)
    seed_globals(sc.get("seed", 0))
    sim = Simulation(entities=[h.lim, h.sink, h.driver], end_time=Instant(4_000_000 * NS))
    cap = 60 * h.n + 2000
    mon = Monitor(sim, cap=cap, spin_cap=8 * h.n + 300, invariant=h.on_delivery,
                  spin_sig=lambda ev: (f"C10/frozen-clock-spin/{h.cname}/poll" if ev.target is h.lim
                                       else f"C10/frozen-clock-spin/harness/{ev.event_type}"))
    sim.schedule(h.initial_events())
    status, payload = run_sim(sim)
    h.t_last = mon.last_time_ns
    sig = msg = None
    if status in ("violation", "exception"):
        sig, msg = payload.sig, payload.msg
        if not sig.startswith("C10/"):
            sig = f"C10/{sig}"
    else:
        f = h.final(status)
        if f:
            sig, msg = f
    fl = h.flags
    pr = h.probe
    counters = {
        "probe.arrival_on_window_boundary": fl["on_b"], "probe.arrival_1ns_before_boundary": fl["before_b"],
        "probe.arrival_1ns_after_boundary": fl["after_b"], "probe.arrival_on_predicted_instant": fl["on_p"],
        "probe.arrival_1ns_before_predicted": fl["before_p"], "probe.arrival_1ns_after_predicted": fl["after_p"],
        "probe.queue_full_drop": int(fl["drop"] and h.cap > 0), "probe.drop_without_queue": int(fl["drop"] and h.cap == 0),
        "probe.queued": int(fl["queued"] and h.kind == "entity"), "probe.inductor_queued": int(fl["queued"] and h.kind == "inductor"),
        "probe.poll_denied": fl["poll_denied"], "probe.poll_drained_multiple": fl["multi_drain"],
        "probe.arrival_tied_with_poll": fl["tie"], "probe.arrival_before_poll_same_instant": fl["arr_before_poll"],
        "probe.arrival_while_queue_nonempty": fl["arr_nonempty"], "probe.burst_same_instant": fl["burst"],
        "probe.tua_zero_checked": int(bool(pr and pr.n_zero)), "probe.tua_positive_checked": int(bool(pr and pr.n_pos)),
        "probe.tua_guard_1ns": int(bool(pr and pr.n_guard)), "probe.wait_iteration_multi_step": int(bool(pr and pr.max_steps >= 2)),
        "probe.adaptive_rate_changed": fl["rate_changed"], "probe.adaptive_hit_min": fl["hit_min"],
        "probe.adaptive_hit_max": fl["hit_max"], "probe.adaptive_feedback_delayed": fl["fb_delayed"],
        "probe.large_base_offset": int(h.base >= 1000 * NS), "probe.renamed_entity": int(h.renamed),
        "probe.renamed_entity_poll_delivered": int(h.renamed and h.n_polls > 0),
        "probe.fixed_boundary_poll_drained": fl["fixed_boundary_drain"],
        "probe.fixed_inexact_window_boundary_poll_drained": fl["fixed_inexact_boundary_drain"],
        "probe.inductor_subns_interval_poll_drained": fl["inductor_subns_drain"],
        "probe.sliding_truncated_window_expiry_attempt": fl["trunc_expiry_attempt"],
        "probe.daemon_request_delivered": fl["daemon_req"], "probe.daemon_request_queued": fl["daemon_queued"],
        "probe.buffered_request_cancelled": fl["cancelled_buffered"],
        "probe.cancelled_request_forwarded_by_poll": fl["cancelled_forwarded"],
        "probe.cancelled_head_with_backlog": fl["cancelled_head_with_backlog"],
        "probe.cancelled_request_dropped_by_limiter": fl["cancelled_dropped_by_limiter"],
        "probe.cancelled_request_discarded_by_engine": int(bool(h.engine_discarded)),
        "checks.tua_zero": pr.n_zero if pr else 0, "checks.tua_positive": pr.n_pos if pr else 0,
        "checks.tua_no_acquire_samples": pr.samples if pr else 0,
        "requests.delivered": len(h.arrived), "requests.forwarded": len(h.sink_log), "requests.dropped": len(h.dropped),
        "requests.queued_total": h.n_queued, "polls": h.n_polls,
        f"mode.{h.mode}": 1,
    }
    ptype = h.info["type"] if h.info else h.kind
    klass = f"{h.kind}/{ptype}/{sc.get('avoid') or 'open'}" if h.kind != "null" else "null"
    if sig:
        counters[f"violating_runs.{klass}"] = 1
    qc = sc.get("queue_cap")
    state = repr((h.kind, ptype, "dflt" if qc is None else min(qc, 4), h.mode, fl["queued"], fl["drop"], fl["poll_denied"],
                  fl["multi_drain"], fl["tie"], fl["on_b"] or fl["on_p"], fl["before_b"] or fl["before_p"],
                  bool(pr and pr.n_zero), bool(pr and pr.n_guard), bool(pr and pr.n_pos), pr.max_steps if pr else 0,
                  fl["hit_min"], fl["hit_max"]))
    limited = bool(fl["queued"] or fl["drop"] or fl["poll_denied"])
    return result(sig=sig, msg=msg or "", digest=mon.digest, nontrivial=len(h.arrived) >= 3 and (limited or h.kind == "null"),
                  counters=counters, sim_s=max(0, mon.last_time_ns - h.base) / NS, deliveries=mon.seq, klass=klass, state=state)


# --------------------------------------------------------------------------
# distributed limiter
# --------------------------------------------------------------------------

class _DistRun:
    def __init__(self, sc):
        self.sc = sc
        k = sc.get("n_limiters", 1)
        if not isinstance(k, int) or not 1 <= k <= 4:
            raise InvalidScenario("n_limiters")
        self.ops = sc.get("ops", [])
        if not self.ops:
            raise InvalidScenario("no arrivals")
        w = sc.get("window", 1.0)
        self.win = M.whole_ns(w, "window")
        limit = sc.get("limit", 1)
        if not isinstance(limit, int) or limit < 1:
            raise InvalidScenario("limit")
        rl, wl, th = sc.get("read_lat", 0.0), sc.get("write_lat", 0.0), sc.get("threshold", 0.8)
        if rl < 0 or wl < 0 or not (0 < th <= 1):
            raise InvalidScenario("latency/threshold")
        self.base = sc.get("base_ns", 0)
        if not isinstance(self.base, int) or self.base < 0 or self.base > 2_000_000 * NS:
            raise InvalidScenario("base")
        self.store = KVStore(name="store", read_latency=rl, write_latency=wl)
        shared = sc.get("shared_sink", True)
        self.sinks = [_Sink("sink" if shared else f"sink{i}", self) for i in range(1 if shared else k)]
        self.lims = [DistributedRateLimiter(f"limiter{i}", self.sinks[0 if shared else i], self.store, global_limit=limit,
                                            window_size=w, local_threshold=th) for i in range(k)]
        self.sink_of = {id(l): self.sinks[0 if shared else i] for i, l in enumerate(self.lims)}
        self.renamed = _apply_rename(sc.get("rename"), self.lims, self.sinks, [self.store])
        self.arrived = {}          # rid -> (limiter index, time)
        self.inflight = collections.Counter()
        self.prev = {i: (0, 0, 0) for i in range(k)}
        self.sink_log = []
        self.seen = set()
        self.decided = {}          # rid -> instant at which the limiter counted it as forwarded
        self.flags = collections.Counter()
        self.open = 0

    def initial_events(self):
        evs, prev = [], self.base
        for rid, op in enumerate(self.ops):
            prev = _op_time(op, prev, self.win, None, False)
            to = op.get("to", 0)
            if not isinstance(to, int) or not 0 <= to < len(self.lims):
                raise InvalidScenario("to")
            evs.append(Event(time=Instant(prev), event_type="req", target=self.lims[to], daemon=bool(op.get("d")),
                             context={"rid": rid, "to": to}))
        return evs

    def on_sink(self, sink, ev):
        rid = ev.context.get("rid")
        now = ev.time.nanoseconds
        if rid in self.seen:
            raise Violation("C10/forwarded-twice/DistributedRateLimiter/same-request", f"request {rid} reached the downstream twice")
        if rid not in self.arrived:
            raise Violation("C10/forwarded-unknown/DistributedRateLimiter/never-arrived", f"unknown request {rid!r} at the downstream")
        to = self.arrived[rid][0]
        if self.sink_of[id(self.lims[to])] is not sink:
            raise Violation("C10/forward-wrong-downstream/DistributedRateLimiter/sink", f"request {rid} sent to the wrong downstream")
        if rid not in self.decided:
            raise Violation("C10/forward-without-accounting/DistributedRateLimiter/sink",
                            f"downstream received request {rid} at t={now}ns before the limiter counted it as forwarded")
        if self.decided[rid] != now:
            raise Violation("C10/forward-wrong-time/DistributedRateLimiter/after-store-round-trip",
                            f"request {rid} admitted at t={self.decided[rid]}ns (arrived {self.arrived[rid][1]}ns) reached the downstream at t={now}ns")
        self.seen.add(rid)
        self.sink_log.append((now, rid))
        if now > self.arrived[rid][1]:
            self.flags["delivered_after_round_trip"] = 1
        return None

    def on_delivery(self, ev, mon):
        tgt = ev.target
        for i, lim in enumerate(self.lims):
            if tgt is lim:
                break
        else:
            return
        t = mon.last_time_ns
        st = lim.stats
        cur = (st.requests_received, st.requests_forwarded, st.requests_dropped)
        d = tuple(a - b for a, b in zip(cur, self.prev[i]))
        self.prev[i] = cur
        first = not isinstance(ev, ProcessContinuation)
        if first:
            rid = ev.context.get("rid")
            self.arrived[rid] = (i, t)
            if ev.daemon:
                self.flags["daemon_req"] = 1
            if d[0] != 1:
                raise Violation("C10/accounting/DistributedRateLimiter/received-delta", f"arrival {rid} changed received by {d[0]}")
            if self.open > 0:
                self.flags["overlap"] = 1
            self.open += 1
        elif d[0] != 0:
            raise Violation("C10/accounting/DistributedRateLimiter/received-delta", f"continuation changed received by {d[0]}")
        done = d[1] + d[2]
        if done not in (0, 1) or d[1] < 0 or d[2] < 0:
            raise Violation("C10/accounting/DistributedRateLimiter/decision-delta",
                            f"one delivery changed (forwarded, dropped) by {d[1:]}")
        if done:
            self.open -= 1
            rid = ev.context.get("rid")
            if d[2]:
                self.flags["rejected"] = 1
            else:
                self.decided[rid] = t
                if t > self.arrived[rid][1]:
                    self.flags["fwd_after_round_trip"] = 1

    def final(self, status):
        tot_r = tot_f = tot_d = 0
        for lim in self.lims:
            st = lim.stats
            tot_r += st.requests_received
            tot_f += st.requests_forwarded
            tot_d += st.requests_dropped
            if status == "ok" and st.requests_received != st.requests_forwarded + st.requests_dropped:
                return ("C10/conservation/DistributedRateLimiter/sum",
                        f"{lim.name}: received={st.requests_received} != forwarded={st.requests_forwarded} + dropped={st.requests_dropped} "
                        f"at quiescence")
        if tot_r != len(self.arrived):
            return ("C10/conservation/DistributedRateLimiter/received", f"received={tot_r}, delivered={len(self.arrived)}")
        if status == "ok" and tot_r != len(self.ops):
            return ("C10/conservation/DistributedRateLimiter/sent-vs-received",
                    f"{len(self.ops)} requests were sent (external ledger) but the received counters add up to {tot_r}")
        if status == "ok" and tot_f != len(self.sink_log):
            lat = "store-latency" if (self.sc.get("read_lat", 0) or self.sc.get("write_lat", 0)) else "zero-latency"
            return (f"C10/forwarded-not-delivered/DistributedRateLimiter/{lat}",
                    f"{tot_f} requests counted as forwarded but only {len(self.sink_log)} reached a downstream "
                    f"(the forward event is stamped with the arrival instant, which lies in the past once the store round trip has elapsed)")
        if status == "budget":
            return ("C10/drain-stalls/DistributedRateLimiter/delivery-budget", "delivery budget exhausted")
        if not self.flags["overlap"]:
            # requests never overlapped a store round trip: the read-modify-write is exact, so the documented
            # "global_limit requests across all instances per window" must hold (boundary instants attributed tolerantly)
            # (the limiter counts a request in the window of its arrival instant, not of the later forward)
            b = M.bound_fixed(sorted(self.arrived[x[1]][1] for x in self.sink_log), self.win, self.sc.get("limit", 1), two_n=False)
            if b:
                return (f"C10/bound/DistributedRateLimiter/sequential-{b[0]}", b[1])
            self.flags["sequential_bound_checked"] = 1
            if self.sc.get("read_lat", 0) or self.sc.get("write_lat", 0):
                self.flags["sequential_bound_checked_latency"] = 1
        return None


def _run_distributed(sc):
    h = _DistRun(sc)
    seed_globals(sc.get("seed", 0))
    ents = h.lims + h.sinks + [h.store]
    sim = Simulation(entities=ents, end_time=Instant(4_000_000 * NS))
    n = len(h.ops)
    mon = Monitor(sim, cap=40 * n + 1000, spin_cap=8 * n + 300, invariant=h.on_delivery,
                  spin_sig=lambda ev: "C10/frozen-clock-spin/DistributedRateLimiter/request")
    sim.schedule(h.initial_events())
    status, payload = run_sim(sim)
    sig = msg = None
    if status in ("violation", "exception"):
        sig, msg = payload.sig, payload.msg
        if not sig.startswith("C10/"):
            sig = f"C10/{sig}"
    else:
        f = h.final(status)
        if f:
            sig, msg = f
    lat = bool(sc.get("read_lat", 0) or sc.get("write_lat", 0))
    klass = f"distributed/{'latency' if lat else 'zero-latency'}"
    counters = {"probe.distributed_overlapping_requests": h.flags["overlap"], "probe.distributed_rejected": h.flags["rejected"],
                "probe.distributed_sequential_bound_checked": h.flags["sequential_bound_checked"],
                "probe.distributed_sequential_bound_checked_with_latency": h.flags["sequential_bound_checked_latency"],
                "probe.distributed_latency_forward_delivered": h.flags["delivered_after_round_trip"],
                "probe.large_base_offset": int(h.base >= 1000 * NS), "probe.distributed_daemon_request": h.flags["daemon_req"],
                "probe.renamed_entity": int(h.renamed),
                "requests.delivered": len(h.arrived), "requests.forwarded": len(h.sink_log)}
    if sig:
        counters[f"violating_runs.{klass}"] = 1
    state = repr(("distributed", len(h.lims), lat, h.flags["overlap"], h.flags["rejected"], sc.get("shared_sink")))
    return result(sig=sig, msg=msg or "", digest=mon.digest, nontrivial=len(h.arrived) >= 3 and bool(h.flags["rejected"]),
                  counters=counters, sim_s=max(0, mon.last_time_ns - h.base) / NS, deliveries=mon.seq, klass=klass, state=state)


def run(sc):
    kind = sc.get("kind")
    if kind in ("entity", "inductor", "null"):
        return _run_queueing(sc)
    if kind == "distributed":
        return _run_distributed(sc)
    raise InvalidScenario(f"kind {kind!r}")
