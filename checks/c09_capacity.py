"""C09 — capacity primitives never over-admit or leak, wake in order, let time pass.

Generated worker processes (harness entities whose handler is a generator, as a
user would write them) run inside the real engine against the real Resource,
Mutex, Semaphore, RWLock, Barrier, Condition, ConnectionPool, Bulkhead,
ThreadPool, Fixed/Dynamic/WeightedConcurrency and PreemptibleResource.  The
schedule space is the fault space: arrival offsets (identical instants,
arrivals during a slow connection set-up), hold times (incl. 0 and "no yield
between grant and release"), amounts, priorities, capacities, timeouts.  A
reference counter model fed by the holder log is compared with the primitive's
public counters after every delivery, at the end of every instant and at
quiescence.  DESIGN.md section 5, C09; families in simkit/c09_families.py.
"""
from __future__ import annotations

import hashlib
import json

from simkit import repo

repo.activate()

from happysimulator.core.event import Event  # noqa: E402
from happysimulator.core.simulation import Simulation  # noqa: E402
from happysimulator.core.temporal import Instant  # noqa: E402

from simkit.c09_families import FAMILIES  # noqa: E402
from simkit.rng import seed_globals  # noqa: E402
from simkit.world import InvalidScenario, Monitor, Violation, result, run_sim, seeded_uuid  # noqa: E402

PROPERTY = "C09"
RUNS = {"quick": 12_000, "thorough": 5_000_000}
WALL = {"quick": 40, "thorough": 1500}
BATCH = {"quick": 250, "thorough": 1000}
SELFTEST_RUNS = 24
RULE = (
    "each case is one primitive + 2-12 generated worker processes (<=6 acquire cycles each; for Bulkhead/ThreadPool "
    "<=30 request events) with start offsets drawn from a handful of instants (so identical instants are common), "
    "hold times incl. 0 and none, generated amounts/priorities/capacities/timeouts; scenario classes per primitive: "
    "contended, zero-hold burst (all contention inside one instant), uncontended, plus avoidance classes for recorded "
    "defects; non-trivial = >=4 holder-log entries and at least one acquirer was blocked, refused, rejected or timed out; "
    "distinct = distinct (engine delivery digest, holder-log hash)"
)
STATE_MEASURE = ("distinct abstract primitive states after a delivery: family-specific tuple of bucketed "
                 "(holders, free/part/full, queued waiters, granted-but-not-resumed, connections being set up, ...)")
REAL = [
    "happysimulator.core.simulation.Simulation (instrumented loop), Event/ProcessContinuation, SimFuture",
    "components.resource.Resource/Grant", "components.sync.Mutex/Semaphore/RWLock/Barrier/Condition",
    "components.client.connection_pool.ConnectionPool (ConstantLatency set-up)", "components.resilience.bulkhead.Bulkhead",
    "components.server.thread_pool.ThreadPool (+Queue, QueueDriver, FIFOQueue)",
    "components.server.concurrency.Fixed/Dynamic/WeightedConcurrency (plain and inside a real components.server.server.Server)",
    "components.industrial.preemptible_resource.PreemptibleResource/PreemptibleGrant",
]
STUBS = [
    "Worker processes interpreting JSON op lists (harness entities with generator handlers)",
    "Bulkhead target service and ConnectionPool backend (harness entities)",
    "reference counter models per primitive (oracle)",
]
ASSUMPTIONS = [
    "barging is not judged: a newcomer that finds enough free capacity may be granted before blocked acquirers; only the "
    "relative order of *blocked* acquirers is checked (for PreemptibleResource: priority order, arrival order within a priority)",
    "'waiting consumes no simulated activity' is read as: no frozen-clock spin (more than 2000 consecutive deliveries at one "
    "clock value) and the clock reaches the release; a bounded number of zero-delay re-checks inside one instant and "
    "ConnectionPool's positive-interval polling (<=0.1 s) are not judged",
    "a grant made by hand-off counts from the hand-off (the primitive's counters change there); the process must resume within "
    "the same instant (ConnectionPool: at its next poll)",
    "misuse by the caller is outside the statement except where the primitive documents a defence: Grant.release() twice "
    "(idempotent), Mutex.release() when unlocked (raises), Semaphore.release() above capacity (raises)",
    "Resource amounts are integers or dyadic fractions (exact in binary); float rounding of non-dyadic amounts is not judged",
    "DynamicConcurrency after a scale-down below the active count: active may exceed the limit (documented); then only "
    "'no new admission' and available == 0 are required",
    "maintenance methods (Barrier.reset/abort, ConnectionPool.close_all, DynamicConcurrency.set_limit/scale_*) are outside the "
    "statement; they are modelled by what their docstrings promise, weaker reading where silent: parties of a round abandoned "
    "by reset()/abort() may come back by RuntimeError or by returning (HEAD returns, the docstring says RuntimeError - counted, "
    "not judged) but never count for a later round; wait() on an aborted barrier raises; close_all() empties the pool, its "
    "waiters get TimeoutError, releasing a connection it closed changes nothing; a raised limit admits queued work within the instant",
    "ThreadPool/Bulkhead: a request refused because the queue is full is counted, not judged; 'as soon as capacity allows' is "
    "judged at the end of an instant (queued work while a worker/slot is idle when the clock is about to advance)",
    "Condition: spurious wakeups are documented and not judged; returning from wait() without any notify covering it is judged",
]
EXPECTED_PROBES = [
    "probe.blocked_then_granted", "probe.waited_across_time", "probe.release_woke_waiter", "probe.release_woke_several",
    "probe.barging", "probe.double_release", "probe.try_refused", "probe.strict_fifo_head_blocks_smaller",
    "probe.readers_overlap", "probe.release_woke_reader_batch", "probe.reader_queued_behind_waiting_writer",
    "probe.tripped", "probe.notify_all", "probe.consumed",
    "probe.arrival_during_setup", "probe.arrival_blocked_during_setup", "probe.handoff", "probe.timeout", "probe.idle_expired",
    "probe.reused_idle", "probe.rejected", "probe.preempted", "probe.preempt_freed_excess", "probe.preempt_insufficient",
    "probe.release_after_preempt", "probe.limit_below_active", "probe.deadlock_left_waiters",
    # reachable since the busy-wait / over-creation fixes: contention across simulated time, per primitive
    "probe.mutex.waited_across_time", "probe.semaphore.waited_across_time", "probe.rwlock.waited_across_time",
    "probe.barrier.waited_across_time", "probe.condition.waited_across_time", "probe.pool.waited_across_time",
    "probe.mutex.chain_handoff", "probe.semaphore.chain_handoff", "probe.rwlock.chain_handoff",
    "probe.mutex.queue_depth_ge_4", "probe.semaphore.queue_depth_ge_4", "probe.rwlock.queue_depth_ge_4",
    "probe.barrier.queue_depth_ge_4", "probe.condition.queue_depth_ge_4", "probe.pool.queue_depth_ge_4",
    "probe.reader_wake_capped_by_max_readers", "probe.writer_granted_after_waiting_across_time",
    "probe.barrier_generations_ge_3", "probe.barrier_more_workers_than_parties",
    "probe.condition_wait_rounds_ge_2", "probe.notify_without_waiters", "probe.notify_woke_several",
    "probe.woken_waiters_contend_for_mutex", "probe.warmup_handed_connection_to_waiter",
    # 2-3 independent instances of one primitive class in one simulation (shared-state detector)
    "probe.multi.instances_active_together", "probe.multi.resource", "probe.multi.mutex", "probe.multi.semaphore",
    "probe.multi.rwlock", "probe.multi.barrier", "probe.multi.condition", "probe.multi.pool", "probe.multi.bulkhead",
    "probe.multi.threadpool", "probe.multi.concurrency", "probe.multi.preemptible", "probe.multi.server",
    # public maintenance methods at generated instants (also while waiters are blocked), then continued use
    "probe.barrier_reset_with_waiters", "probe.barrier_abort_with_waiters", "probe.barrier_tripped_after_reset",
    "probe.wait_on_aborted_raised", "probe.close_all_with_active_connections", "probe.close_all_with_waiters",
    "probe.waiter_released_by_close_all", "probe.release_of_closed_connection",
    "probe.limit_raised_under_backlog", "probe.limit_lowered",
    "probe.weighted_request", "probe.weighted_request_in_service", "probe.request_discarded_by_worker",
    "probe.renamed_after_construction",
]
SHRINK_SKIP = ("family", "klass", "kind")  # the shrinker may drop whole instances from "subs"
SHRINK_BUDGET_S = {"quick": 20.0, "thorough": 60.0}

CAP = 30_000
SPIN_CAP = 2_000

MS = 1_000_000
T_CLUSTER = [0, 0, 0, 1 * MS, 1 * MS, 2 * MS, 3 * MS, 5 * MS, 10 * MS]
H_MIX = [0, 0, 1 * MS, 1 * MS, 2 * MS, 3 * MS, 5 * MS, 7 * MS]


# --------------------------------------------------------------------------
# generation
# --------------------------------------------------------------------------

def _times(rng, n, style):
    if style == "burst":
        t0 = rng.choice([0, 0, 2 * MS])
        return [t0] * n
    if style == "two":
        a, b = 0, rng.choice([1 * MS, 3 * MS, 50 * MS])
        return [rng.choice([a, b]) for _ in range(n)]
    if style == "spread":
        return [rng.randrange(0, 20) * MS + rng.choice([0, 0, 1, 999_999]) for _ in range(n)]
    return [rng.choice(T_CLUSTER) for _ in range(n)]


def _hold(rng, zero=False):
    """A list of 0 or 1 hold ops."""
    if zero:
        return rng.choice([[], [], [{"op": "hold", "ns": 0}]])
    if rng.random() < 0.12:
        return []
    return [{"op": "hold", "ns": rng.choice(H_MIX)}]


def _prog_span(ops):
    return sum(o.get("ns", 0) + o.get("hold_ns", 0) for o in ops)


def _stagger(workers, margin=1 * MS):
    """Re-time workers so that their programs cannot overlap (uncontended class)."""
    t = 0
    for w in workers:
        w["t"] = t
        t += _prog_span(w["ops"]) + margin
    return workers


def _n_workers(rng, hi=12):
    return rng.choice([2, 2, 3, 3, 4, 5, 6, 8, 10, 12][: max(1, hi - 2)])


def gen_resource(rng):
    klass = rng.choice(["mixed", "mixed", "burst", "dyadic"])
    if klass == "dyadic":
        cap = rng.choice([1.0, 2.5, 1.5])
        amounts = [a for a in (0.25, 0.5, 0.75, 1.0, 1.5) if a <= cap]
    else:
        cap = rng.choice([1, 2, 3, 3, 4, 5, 8])
        amounts = list(range(1, cap + 1))
    n = _n_workers(rng)
    cycles_hi = 6 if n <= 6 else 3
    times = _times(rng, n, "burst" if klass == "burst" else rng.choice(["cluster", "cluster", "two", "spread"]))
    zero = klass == "burst" and rng.random() < 0.5
    workers = []
    for i in range(n):
        ops = []
        for _ in range(rng.randint(1, cycles_hi)):
            a = rng.choice(amounts)
            r = rng.random()
            if r < 0.12 and a < cap:
                b = rng.choice([x for x in amounts if a + x <= cap])  # no self-deadlock; cross-worker deadlock stays possible
                ops += [{"op": "acq", "a": a, "slot": 0}] + _hold(rng, zero) + [{"op": "acq", "a": b, "slot": 1}] + _hold(rng, zero)
                first = rng.choice([0, 1])
                ops += [{"op": "rel", "slot": first}] + _hold(rng, zero) + [{"op": rng.choice(["rel", "rel2"]), "slot": 1 - first}]
            elif r < 0.32:
                ops += [{"op": "try", "a": a, "slot": 0}] + _hold(rng, zero) + [{"op": "rel", "slot": 0}]
            else:
                ops += [{"op": "acq", "a": a, "slot": 0}] + _hold(rng, zero) + [{"op": rng.choice(["rel", "rel", "rel", "rel2"]), "slot": 0}]
            if rng.random() < 0.4:
                ops += _hold(rng, zero)
        workers.append({"t": times[i], "ops": ops})
    return {"family": "resource", "klass": f"resource/{klass}", "cfg": {"capacity": cap}, "workers": workers}


def _sync_klass(rng, extra=()):
    # contended / convoy: blocked across time (reachable since the busy-wait fix); zero-hold-burst: all contention in
    # one instant; uncontended: nobody blocks (try/immediate paths)
    return rng.choice(["contended"] * 5 + ["convoy"] * 3 + ["zero-hold-burst"] * 2 + ["uncontended"] + list(extra))


def _sync_workers(rng, klass, cycle, n=None, cycles_hi=None, first_cycle=None):
    """Build workers for a sync primitive. cycle(rng, zero) -> list of ops for one acquire/release cycle.

    convoy: worker 0 takes the primitive at t=0 (first_cycle) and keeps it for a long time while the others arrive
    one after another at distinct (and some identical) instants and pile up in the wait queue."""
    if n is None:
        n = _n_workers(rng, hi=8 if klass == "zero-hold-burst" else 12)
    if cycles_hi is None:
        cycles_hi = 3 if klass == "zero-hold-burst" else 6 if n <= 8 else 4
    zero = klass == "zero-hold-burst"
    if zero:
        times = [0] * n if rng.random() < 0.7 else [rng.choice([0, 40 * MS]) for _ in range(n)]
    elif klass == "convoy":
        step = rng.choice([1, 1000, 1 * MS])
        times = [0] + [step * rng.randint(1, n) for _ in range(n - 1)]
    else:
        times = _times(rng, n, rng.choice(["cluster", "cluster", "burst", "two", "spread"]))
    workers = []
    for i in range(n):
        ops = []
        if klass == "convoy" and i == 0:
            head = (first_cycle or cycle)(rng, False)
            ops += [o for o in head if o["op"] not in ("hold", "rel")]
            ops += [{"op": "hold", "ns": rng.choice([20 * MS, 50 * MS])}, {"op": "rel"}]
        for _ in range(rng.randint(1, cycles_hi)):
            ops += cycle(rng, zero)
            if rng.random() < 0.4:
                ops += _hold(rng, zero)
        workers.append({"t": times[i], "ops": ops})
    if klass == "uncontended":
        _stagger(workers)
    return workers


def gen_mutex(rng):
    klass = _sync_klass(rng)

    def cycle(rng, zero):
        r = rng.random()
        head = [{"op": "try"}] if r < 0.2 else [{"op": "acq"}]
        tail = [{"op": "rel"}]
        if rng.random() < 0.08:
            tail.append({"op": "badrel"})
        return head + _hold(rng, zero) + tail

    first = lambda rng, zero: [{"op": "acq"}]  # noqa: E731
    return {"family": "mutex", "klass": f"mutex/{klass}", "cfg": {}, "workers": _sync_workers(rng, klass, cycle, first_cycle=first)}


def gen_semaphore(rng):
    klass = _sync_klass(rng)
    cap = rng.choice([1, 2, 3, 3, 4, 5])
    n = _n_workers(rng, hi=8 if klass == "zero-hold-burst" else 12)
    if klass == "uncontended":
        # all may overlap but the total demand fits
        cap = max(cap, 2)
        n = min(n, cap)
        per = max(1, cap // n)
    else:
        per = cap

    def cycle(rng, zero):
        a = rng.randint(1, per)
        head = [{"op": "try", "a": a}] if rng.random() < 0.2 else [{"op": "acq", "a": a}]
        tail = [{"op": "rel", "split": rng.random() < 0.25}]
        if rng.random() < 0.06:
            tail.append({"op": "overrel"})
        return head + _hold(rng, zero) + tail

    first = lambda rng, zero: [{"op": "acq", "a": cap}]  # noqa: E731  (convoy head drains the semaphore)
    workers = _sync_workers(rng, "contended" if klass == "uncontended" else klass, cycle, n=n, first_cycle=first)
    return {"family": "semaphore", "klass": f"semaphore/{klass}", "cfg": {"capacity": cap}, "workers": workers}


def gen_rwlock(rng):
    klass = _sync_klass(rng, extra=["readers-only"])
    mr = rng.choice([None, None, 1, 2, 3])
    if klass == "readers-only":
        mr = None

    def cycle(rng, zero):
        if klass == "readers-only":
            head = [{"op": rng.choice(["rd", "rd", "tryrd"])}]
        else:
            head = [{"op": rng.choice(["rd", "rd", "rd", "wr", "wr", "tryrd", "trywr"])}]
        return head + _hold(rng, zero) + [{"op": "rel"}]

    first = lambda rng, zero: [{"op": rng.choice(["wr", "wr", "rd"])}]  # noqa: E731
    workers = _sync_workers(rng, "contended" if klass == "readers-only" else klass, cycle, first_cycle=first)
    return {"family": "rwlock", "klass": f"rwlock/{klass}", "cfg": {"max_readers": mr}, "workers": workers}


def gen_barrier(rng):
    klass = rng.choice(["staggered", "staggered", "staggered", "phased", "phased", "same-instant"])
    if klass in ("same-instant", "phased"):
        # every worker passes the same number of barriers; phased: arrival instants differ per worker and phase
        parties = rng.choice([1, 2, 2, 3, 4, 6])
        groups = rng.choice([1, 1, 2])
        n = parties * groups
        gens = rng.randint(1, 5)
        t0 = rng.choice([0, 2 * MS])
        workers = []
        gaps = [rng.choice([0, 0, 1 * MS, 3 * MS]) for _ in range(gens)]
        for _ in range(n):
            ops = []
            for g in range(gens):
                ops.append({"op": "wait"})
                gap = gaps[g] if klass == "same-instant" else rng.choice(H_MIX)
                if gap or rng.random() < 0.5:
                    ops.append({"op": "hold", "ns": gap})
            workers.append({"t": t0 if klass == "same-instant" else rng.choice(T_CLUSTER), "ops": ops})
    else:
        n = _n_workers(rng, hi=12)
        parties = rng.choice([2, 2, 3, n, max(2, n // 2)])
        times = _times(rng, n, rng.choice(["cluster", "two", "spread"]))
        workers = []
        for i in range(n):
            ops = []
            for _ in range(rng.randint(1, 5)):
                ops += [{"op": "wait"}] + _hold(rng)
            workers.append({"t": times[i], "ops": ops})
    if rng.random() < 0.3:
        # maintenance: reset()/abort() at generated instants (also while parties wait), then continued use
        klass += "+maintenance"
        ops = []
        for _ in range(rng.randint(1, 4)):
            ops.append({"op": "hold", "ns": rng.choice([0, 1 * MS, 2 * MS, 3 * MS, 4 * MS, 6 * MS, 9 * MS])})
            r = rng.random()
            ops += [{"op": "reset"}] if r < 0.6 else [{"op": "abort"}, {"op": "hold", "ns": rng.choice([0, 1 * MS, 3 * MS])}, {"op": "reset"}]
        workers.append({"t": rng.choice(T_CLUSTER), "ops": ops})
        if rng.random() < 0.5:   # the workers themselves also reset now and then, between two waits
            for w_ in workers[:-1]:
                if rng.random() < 0.3 and w_["ops"]:
                    w_["ops"].insert(rng.randrange(len(w_["ops"]) + 1), {"op": "reset"})
    return {"family": "barrier", "klass": f"barrier/{klass}", "cfg": {"parties": parties}, "workers": workers}


def gen_condition(rng):
    klass = rng.choice(["timed", "timed", "timed", "same-instant"])
    zero = klass == "same-instant"
    nc = rng.randint(1, 4 if zero else 7)
    np_ = rng.randint(1, 3 if zero else 4)
    workers = []
    for _ in range(nc):
        ops = []
        for _ in range(1 if zero else rng.randint(1, 4)):
            ops += [{"op": "consume", "max_waits": rng.randint(1, 3)}] + _hold(rng, zero)
        workers.append({"t": 0 if zero else rng.choice(T_CLUSTER), "ops": ops})
    for _ in range(np_):
        ops = []
        for _ in range(rng.randint(1, 3 if zero else 5)):
            o = {"op": "produce", "n": rng.randint(0 if not zero else 1, 2)}
            if rng.random() < 0.4:
                o["all"] = True
            else:
                o["notify"] = rng.randint(1, 2)
            if not zero and rng.random() < 0.3:
                o["hold_ns"] = rng.choice(H_MIX)
            ops += [o] + _hold(rng, zero)
        workers.append({"t": 0 if zero else rng.choice(T_CLUSTER), "ops": ops})
    if zero:
        # avoidance class for the busy-wait defect: every consumer is queued before the producers run (same instant),
        # and the last producer notifies everybody, so no wait() outlives the instant
        workers[-1]["ops"].append({"op": "produce", "n": nc, "all": True})
    elif rng.random() < 0.5:
        rng.shuffle(workers)
    return {"family": "condition", "klass": f"condition/{klass}", "cfg": {}, "workers": workers}


def gen_pool(rng):
    klass = rng.choice(["burst-during-setup"] * 5 + ["warm-then-burst", "timeouts", "sequential-idle"])
    maxc = rng.choice([1, 2, 2, 3, 4])
    setup = rng.choice([0, 1 * MS, 10 * MS, 100 * MS])
    cfg = {"max": maxc, "min": 0, "timeout_ns": rng.choice([50 * MS, 200 * MS, 1000 * MS]),
           "idle_ns": 10_000 * MS, "setup_ns": setup, "warmup": False}
    workers = []

    def cyc(hold_choices):
        return [{"op": "acq"}, {"op": "hold", "ns": rng.choice(hold_choices)}, {"op": "rel"}]

    if klass == "burst-during-setup":
        n = rng.randint(2, 12)
        cfg["min"] = rng.choice([0, 0, 1, maxc])
        cfg["warmup"] = cfg["min"] > 0 and rng.random() < 0.7
        cfg["idle_ns"] = rng.choice([50 * MS, 300 * MS, 10_000 * MS])
        if rng.random() < 0.35:
            cfg["timeout_ns"] = rng.choice([20 * MS, 50 * MS, 100 * MS])  # waiters time out while set-ups / long holds go on
        for i in range(n):
            t = rng.choice([0, 0, 0, setup // 2, setup, setup + 1, 2 * setup + 1 * MS, 150 * MS])
            ops = []
            for _ in range(rng.randint(1, 4)):
                ops += cyc([0, 1 * MS, 5 * MS, 20 * MS, 120 * MS, 400 * MS]) + _hold(rng)
            workers.append({"t": t, "ops": ops})
    elif klass in ("warm-then-burst", "timeouts"):
        # avoidance class for the over-creation defect: the pool is filled one connection at a time,
        # every warm-up worker keeps its connection until all max_connections exist
        step = setup + 1 * MS
        warm_end = maxc * step + 1 * MS
        for i in range(maxc):
            workers.append({"t": i * step, "ops": [{"op": "acq"}, {"op": "hold", "ns": warm_end - i * step + rng.choice([0, 1 * MS, 30 * MS])}, {"op": "rel"}]})
        n = rng.randint(2, 9)
        if klass == "timeouts":
            cfg["timeout_ns"] = rng.choice([20 * MS, 50 * MS, 100 * MS])
            holds = [30 * MS, 60 * MS, 150 * MS, 400 * MS]
        else:
            holds = [0, 1 * MS, 5 * MS, 20 * MS, 120 * MS]
        for i in range(n):
            t = warm_end + rng.choice([0, 0, 0, 1 * MS, 5 * MS, 50 * MS, 130 * MS])
            ops = []
            for _ in range(rng.randint(1, 3)):
                ops += cyc(holds) + _hold(rng)
            workers.append({"t": t, "ops": ops})
    else:  # sequential-idle: one user at a time, short idle timeout: create, expire, create again
        cfg["idle_ns"] = rng.choice([20 * MS, 50 * MS, 100 * MS])
        cfg["min"] = rng.choice([0, 0, 1]) if maxc > 1 else 0
        cfg["warmup"] = cfg["min"] > 0
        t = 500 * MS if cfg["warmup"] else 0
        for i in range(rng.randint(2, 6)):
            ops = []
            for _ in range(rng.randint(1, 2)):
                ops += cyc([0, 1 * MS, 5 * MS, 30 * MS]) + [{"op": "hold", "ns": rng.choice([0, 1 * MS, cfg["idle_ns"] - 1, cfg["idle_ns"], cfg["idle_ns"] + 1, 3 * cfg["idle_ns"]])}]
            workers.append({"t": t, "ops": ops})
            t += _prog_span(ops) + 4 * setup + rng.choice([1 * MS, cfg["idle_ns"], 2 * cfg["idle_ns"] + 1 * MS])
    if rng.random() < 0.2:
        # maintenance: close_all() at generated instants (with active connections / waiters / set-ups in flight), then continued use
        klass += "+close_all"
        ops = []
        for _ in range(rng.randint(1, 3)):
            ops += [{"op": "hold", "ns": rng.choice([0, 1 * MS, 5 * MS, 20 * MS, 60 * MS, 150 * MS, 400 * MS])}, {"op": "close_all"}]
        workers.append({"t": rng.choice([0, 1 * MS, workers[-1]["t"]]), "ops": ops})
    last = max(w["t"] + _prog_span(w["ops"]) for w in workers)
    n_ops = sum(1 for w in workers for o in w["ops"] if o["op"] == "acq")
    end = last + n_ops * (cfg["timeout_ns"] + setup + 200 * MS) + 3 * cfg["idle_ns"] + 1000 * MS
    return {"family": "pool", "klass": f"pool/{klass}", "cfg": cfg, "workers": workers, "end_ns": end}


def _requests(rng, n, holds):
    style = rng.choice(["burst", "cluster", "cluster", "two", "spread"])
    ts = sorted(_times(rng, n, style))
    return [{"t": t, "ns": rng.choice(holds)} for t in ts]


def gen_bulkhead(rng):
    maxc = rng.choice([1, 1, 2, 3])
    q = rng.choice([0, 1, 2, 4, 8])
    wait = rng.choice([None, None, 1 * MS, 3 * MS, 10 * MS]) if q else None
    n = rng.randint(3, 30)
    reqs = _requests(rng, n, [0, 1 * MS, 1 * MS, 2 * MS, 3 * MS, 5 * MS, 12 * MS])
    return {"family": "bulkhead", "klass": "bulkhead/" + ("queue-timeout" if wait else "queue" if q else "no-queue"),
            "cfg": {"max": maxc, "queue": q, "wait_ns": wait}, "workers": [], "requests": reqs}


def gen_threadpool(rng):
    klass = rng.choice(["single-worker", "multi-worker"])
    nw = 1 if klass == "single-worker" else rng.choice([2, 2, 3, 4])
    q = rng.choice([None, None, 1, 2, 5])
    n = rng.randint(2, 24)
    reqs = _requests(rng, n, [0, 1 * MS, 1 * MS, 2 * MS, 3 * MS, 5 * MS])
    return {"family": "threadpool", "klass": f"threadpool/{klass}", "cfg": {"workers": nw, "queue": q}, "workers": [], "requests": reqs}


def gen_concurrency(rng):
    kind = rng.choice(["fixed", "dynamic", "weighted"])
    lim = rng.choice([1, 2, 3, 5])
    cfg = {"kind": kind, "limit": lim}
    if kind == "dynamic":
        cfg["lo"] = rng.choice([1, 1, min(2, lim)])
        cfg["hi"] = rng.choice([None, lim, lim + 2])
    n = _n_workers(rng)
    times = _times(rng, n, rng.choice(["cluster", "burst", "two"]))
    workers = []
    for i in range(n):
        ops = []
        for _ in range(rng.randint(1, 5)):
            a = rng.randint(1, max(1, lim)) if kind == "weighted" else rng.choice([1, 1, 1, 2, 3])
            ops += [{"op": "acq", "a": a}] + _hold(rng) + [{"op": "rel"}]
            r = rng.random()
            if kind == "dynamic" and r < 0.3:
                ops.append({"op": "limit", "how": rng.choice(["set", "up", "down"]), "to": rng.randint(0, 4)})
            elif r < 0.4:
                ops.append({"op": "rel2"})
            if rng.random() < 0.4:
                ops += _hold(rng)
        workers.append({"t": times[i], "ops": ops})
    return {"family": "concurrency", "klass": f"concurrency/{kind}", "cfg": cfg, "workers": workers}


def gen_server(rng):
    """A real Server in front of a sink; requests carry weights; a controller raises / lowers a DynamicConcurrency limit."""
    kind = rng.choice(["dynamic", "dynamic", "dynamic", "fixed", "int", "weighted", "weighted"])
    lim = rng.choice([1, 1, 2, 3, 4])
    cfg = {"kind": kind, "limit": lim, "queue": rng.choice([None, None, None, 3, 8]),
           "service_ns": [rng.choice([0, 1 * MS, 2 * MS, 5 * MS, 5 * MS, 12 * MS, 30 * MS]) for _ in range(rng.randint(1, 4))]}
    n = rng.randint(3, 30)
    heavy = rng.choice([0.0, 0.15, 0.4])
    reqs = []
    for t in sorted(_times(rng, n, rng.choice(["burst", "burst", "cluster", "two", "spread"]))):
        wt = rng.randint(2, max(2, lim)) if rng.random() < heavy else 1
        reqs.append({"t": t, "w": wt})
    workers = []
    raise_only = rng.random() < 0.4
    if kind == "dynamic":
        cfg["lo"] = rng.choice([1, 1, min(2, lim)])
        cfg["hi"] = rng.choice([None, None, lim + 1, lim + 3])
        for _ in range(rng.choice([1, 1, 2])):
            ops = []
            for _ in range(rng.randint(1, 6)):
                ops.append({"op": "hold", "ns": rng.choice([0, 1 * MS, 2 * MS, 3 * MS, 5 * MS, 7 * MS, 20 * MS])})
                ops.append({"op": "limit", "how": "up" if raise_only else rng.choice(["set", "up", "up", "down"]), "to": rng.randint(0, 4)})
            workers.append({"t": rng.choice(T_CLUSTER), "ops": ops})
    # avoidance classes for the discard-at-head findings: weighted without heavy requests; dynamic that only raises
    klass = f"server/{kind}" + ("+weights" if heavy else "") + ("+raise-only" if kind == "dynamic" and raise_only else "")
    return {"family": "server", "klass": klass, "cfg": cfg, "workers": workers, "requests": reqs}


def gen_preemptible(rng):
    klass = rng.choice(["mixed"] * 5 + ["unit-amounts", "no-preempt"])
    cap = rng.choice([1, 2, 3, 3, 4, 6])
    n = _n_workers(rng, hi=10)
    times = _times(rng, n, rng.choice(["cluster", "cluster", "burst", "two", "spread"]))
    workers = []
    for i in range(n):
        ops = []
        for _ in range(rng.randint(1, 5 if n <= 6 else 3)):
            a = 1 if klass == "unit-amounts" else rng.randint(1, cap)
            p = float(rng.choice([0, 1, 1, 2, 3, 5]))
            pre = False if klass == "no-preempt" else rng.random() < 0.7
            ops += [{"op": "acq", "a": a, "p": p, "pre": pre, "slot": 0}] + _hold(rng) + [{"op": rng.choice(["rel", "rel", "rel2"]), "slot": 0}]
            if rng.random() < 0.4:
                ops += _hold(rng)
        workers.append({"t": times[i], "ops": ops})
    return {"family": "preemptible", "klass": f"preemptible/{klass}", "cfg": {"capacity": cap}, "workers": workers}


GENS = [
    (gen_resource, 13), (gen_mutex, 11), (gen_semaphore, 12), (gen_rwlock, 15), (gen_barrier, 8), (gen_condition, 10),
    (gen_pool, 12), (gen_bulkhead, 6), (gen_threadpool, 3), (gen_concurrency, 3), (gen_preemptible, 7), (gen_server, 7),
]
_TOTAL_W = sum(w for _, w in GENS)


MULTI_SHARE = 0.2


def gen(rng, tier):
    x = rng.randrange(_TOTAL_W)
    for g, w in GENS:
        if x < w:
            break
        x -= w
    if rng.random() < MULTI_SHARE:
        # 2-3 independent instances of the same primitive class in one Simulation, each judged by its own reference
        # model: state accidentally shared between instances (class-level containers, module globals, mutable default
        # arguments) shows up as a violation in one of them.  "twin": identical programs (same-numbered requests in
        # flight together); otherwise independently generated programs.
        k = rng.choice([2, 2, 3])
        first = g(rng)
        if rng.random() < 0.5:
            subs = [first] + [json.loads(json.dumps(first)) for _ in range(k - 1)]
            shift = rng.choice([0, 0, 1, 1 * MS])
            for j, sub in enumerate(subs):
                for w_ in sub.get("workers", []):
                    w_["t"] += j * shift
                for r_ in sub.get("requests", []):
                    r_["t"] += j * shift
                if sub.get("end_ns"):
                    sub["end_ns"] += j * shift
            mode = "twin"
        else:
            subs = [first] + [g(rng) for _ in range(k - 1)]
            mode = "indep"
        sc = {"family": "multi", "klass": f"multi-{mode}/{first['family']}", "subs": subs}
    else:
        sc = g(rng)
        if rng.random() < 0.15:
            sc["rename"] = True
    sc["seed"] = rng.getrandbits(32)
    return sc


# --------------------------------------------------------------------------
# run
# --------------------------------------------------------------------------

def run(sc):
    # Event ids come from uuid4 (one getrandom syscall per event); a seeded generator keeps ids reproducible and cheap
    with seeded_uuid(int(sc.get("seed", 0))):
        return _run(sc)


def _build_instance(sc, tag):
    fam_name = sc.get("family")
    if fam_name not in FAMILIES or "cfg" not in sc or not isinstance(sc.get("workers"), list):
        raise InvalidScenario("family/cfg/workers")
    fam = FAMILIES[fam_name](sc)
    try:
        ents = fam.build()
        workers = fam.make_workers()
    except KeyError as e:
        raise InvalidScenario(f"missing {e}") from None
    if fam_name in ("bulkhead", "threadpool", "server"):
        if not sc.get("requests"):
            raise InvalidScenario("no requests")
    elif not workers:
        raise InvalidScenario("no workers")
    if fam_name == "pool" and not sc.get("end_ns"):
        raise InvalidScenario("pool needs end_ns")
    if tag:
        # several independent instances in one simulation: give every entity its own name, as a user would
        for e in list(ents) + list(workers):
            e.name = f"{e.name}{tag}"
            for part in ("queue", "driver", "worker"):
                sub = getattr(e, part, None)
                if sub is not None and hasattr(sub, "name"):
                    sub.name = f"{sub.name}{tag}"
    return fam, ents, workers


def _run(sc):
    multi = sc.get("family") == "multi"
    if multi:
        subs = sc.get("subs")
        if not isinstance(subs, list) or not (1 <= len(subs) <= 4) or len({x.get("family") for x in subs}) != 1:
            raise InvalidScenario("subs")
    else:
        subs = [sc]
    fam_name = subs[0].get("family")
    seed_globals(sc.get("seed", 0))
    fams, ents, workers = [], [], []
    for k, sub in enumerate(subs):
        # entities are also renamed after construction in a share of single-instance runs (a legal configuration: the
        # library itself renames cloned entities); nothing may key on the name an entity had in __init__
        f, e, w = _build_instance(sub, f"@{k}" if multi else ("-renamed" if sc.get("rename") else ""))
        fams.append(f)
        ents += list(e)
        workers += list(w)
    ends = [int(x["end_ns"]) for x in subs if x.get("end_ns")]
    sim = Simulation(entities=ents + workers, end_time=Instant(max(ends)) if ends else None)
    cls0 = fams[0].CLS

    def spin_sig(ev):
        cur = getattr(ev.target, "cur", None) or ev.event_type
        cls = getattr(getattr(ev.target, "fam", None), "CLS", cls0)
        return f"C09/passive-wait/{cls}/frozen-clock-spin-in-{cur}"

    def after(ev, mon):
        for f in fams:
            f.after(ev, mon)

    def eoi(_t=None):
        for f in fams:
            f.eoi()

    mon = Monitor(sim, cap=CAP * len(fams), spin_cap=SPIN_CAP, invariant=after, spin_sig=spin_sig)
    for f in fams:
        f.sim = sim
        f.mon = mon
    sim.control.on_time_advance(eoi)
    try:
        extra = [e for f in fams for e in f.extra_events()]
    except KeyError as e:
        raise InvalidScenario(f"missing {e}") from None
    for e in extra:
        sim.schedule(e)
    for w in workers:
        sim.schedule(Event(time=Instant(w.t_ns), event_type="go", target=w))

    outcome, payload = run_sim(sim)
    sig = msg = None
    if outcome in ("violation", "exception"):
        sig, msg = payload.sig, payload.msg
        if outcome == "exception":
            sig = f"C09/{sig}/{cls0}"
    elif outcome == "budget":
        sig, msg = f"C09/terminates/{cls0}/delivery-budget", f"run did not finish within {CAP * len(fams)} deliveries"
    else:
        try:
            for f in fams:
                f.final()
        except Violation as v:
            sig, msg = v.sig, v.msg
        if sig is None:
            stuck = [w.name for w in workers if not w.done]
            if stuck and fam_name in ("mutex", "rwlock", "concurrency", "pool"):
                sig, msg = (f"C09/served-eventually/{cls0}/process-never-finished",
                            f"workers {stuck} never finished although every holder releases")
    if multi and sig and msg is not None:
        msg = f"[{len(fams)} independent {cls0} instances in one simulation] {msg}"

    counters = {}
    for f in fams:
        for k, v in f.counters.items():
            counters[k] = max(counters.get(k, 0), v) if k.startswith("probe.") else counters.get(k, 0) + v
    blocked = counters.get("blocked", 0)
    contention = blocked or any(counters.get("probe." + p) for p in ("try_refused", "rejected", "timeout", "tripped", "preempted", "consumed"))
    counters[f"family.{fam_name}"] = 1
    max_blocked = max(f.max_blocked for f in fams)
    if max_blocked >= 4:
        counters[f"probe.{fam_name}.queue_depth_ge_4"] = 1
    if sc.get("rename"):
        counters["probe.renamed_after_construction"] = 1
    if multi:
        counters[f"probe.multi.{fam_name}"] = 1
        if sum(1 for f in fams if f.counters.get("blocked", 0) or f.nlog >= 4) >= 2:
            counters["probe.multi.instances_active_together"] = 1
    if sig is None:
        counters["clean_runs"] = 1
    h = hashlib.blake2b(("|".join([mon.digest] + [f.loghash for f in fams])).encode(), digest_size=12).hexdigest()
    states = sorted(set().union(*[f.states for f in fams]))
    return result(
        sig=sig, msg=msg or "", digest=h,
        nontrivial=sum(f.nlog for f in fams) >= 4 and bool(contention),
        counters=counters, sim_s=mon.last_time_ns / 1e9, deliveries=mon.seq,
        klass=sc.get("klass", fam_name), state=states,
        extra={"max_same_t": mon.max_same_t, "max_blocked": max_blocked},
    )
