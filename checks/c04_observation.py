"""C04 — observing, pausing or stepping a run does not change it.

One generated script program is run (a) uninterrupted, (b) with the control
surface attached, (c) with a trace recorder, (d) with event tracing, (e) under a
generated sequence of pause/step/resume/breakpoint/hook/introspection calls,
(f) with everything at once; histories, per-entity state chains and counters
must agree, step(n)/breakpoint semantics are checked against a harness-side
mirror, and reset()+run() must repeat the delivery sequence for stateless
programs.  DESIGN.md section 5 C04.
"""
from __future__ import annotations

import hashlib

from simkit import repo

repo.activate()

import happysimulator.core.event as _evmod  # noqa: E402
from happysimulator.core.control.breakpoints import (  # noqa: E402
    ConditionBreakpoint,
    EventCountBreakpoint,
    EventTypeBreakpoint,
    MetricBreakpoint,
    TimeBreakpoint,
)
from happysimulator.core.simulation import Simulation  # noqa: E402
from happysimulator.core.temporal import Instant  # noqa: E402
from happysimulator.instrumentation.recorder import InMemoryTraceRecorder  # noqa: E402

from checks.c01_engine_order import _validate as _validate_prog  # noqa: E402
from simkit.scriptprog import ProgramRunner, gen_program  # noqa: E402
from simkit.world import InvalidScenario, repo_exception_sig, result  # noqa: E402

PROPERTY = "C04"
RUNS = {"quick": 6_000, "thorough": 4_000_000}
WALL = {"quick": 50, "thorough": 1500}
BATCH = {"quick": 100, "thorough": 1000}
CPU_LIMIT_S = 60          # a generated program is a few hundred deliveries: milliseconds of CPU
TIMEOUT_SIG = "run-does-not-terminate"
RULE = (
    "each case is a generated script program (as in C01) plus a generated control script of up to 14 calls "
    "(pause requested from an event hook at a chosen delivery index, step(n), resume, Time/EventCount/EventType/"
    "Condition/Metric breakpoints one-shot or not, remove/clear breakpoints, remove hook, peek_next/find_events/get_state); "
    "the program is run in 6 observation modes and every mode is compared with the uninterrupted run; stateless programs "
    "are additionally reset() and re-run; non-trivial = >=5 deliveries and >=2 control calls that took effect; distinct = "
    "distinct (delivery log, control script) digests"
)
STATE_MEASURE = "distinct (set of control ops that took effect, pause reasons seen, stateless-reset yes/no) tuples"
REAL = ["happysimulator.core.simulation.Simulation (fast + instrumented loop)",
        "happysimulator.core.control.SimulationControl and all five breakpoint classes",
        "happysimulator.instrumentation.recorder.InMemoryTraceRecorder", "happysimulator.core.event tracing flag"]
STUBS = ["ScriptEntity handlers (harness)", "harness-side mirror of breakpoint predicates"]
ASSUMPTIONS = [
    "no events are scheduled from outside while the run is paused (the statement speaks about observing, not injecting)",
    "a breakpoint or pause request that fires during step(n) may legitimately end the step early",
    "for reset(): 'stateless' programs are acyclic emit graphs without cancel/crash actions; entity logs are harness state",
]
EXPECTED_PROBES = ["probe.step_completed", "probe.breakpoint_hit", "probe.pause_from_hook", "probe.reset_rerun",
                   "probe.step_hit_end_of_run", "probe.non_one_shot_refired", "probe.peek_or_find",
                   "probe.reset_with_source", "probe.metric_breakpoint_on_zero", "probe.breakpoint_added_from_hook",
                   "probe.reset_after_fast_loop_run", "probe.paused_at_final_delivery",
                   "probe.reset_from_a_midrun_pause", "probe.reset_with_probe_class", "probe.reset_rerun_without_initial_pause", "probe.pause_requested_from_time_hook", "probe.reset_before_first_run"]
SHRINK_SKIP = ("n_entities", "n_kinds")


def gen(rng, tier):
    stateless = rng.random() < 0.35
    if stateless:
        prog = gen_program(rng, allow_crash=False, allow_past=False, fuel=10**9)
        _make_stateless(prog)
    else:
        prog = gen_program(rng)
    prog["stateless"] = stateless
    if stateless and rng.random() < 0.4:
        prog["post_run_cancel"] = [rng.randrange(1000) for _ in range(rng.randint(1, 3))]
    if stateless:
        prog["reset_pause_first"] = rng.random() < 0.5
        prog["reset_before_first_run"] = rng.random() < 0.25
    if stateless and rng.random() < 0.4:
        prog["reset_midrun"] = rng.choice([1, 2, 3, 5, 8, 13, 21])
    if stateless and rng.random() < 0.5:
        prog["reset_first_fast"] = True
        if prog["end"] is None and rng.random() < 0.7:      # the fast loop needs an explicit end
            prog["end"] = max([i["t"] for i in prog["initial"]] or [0]) + 4_000_000_000_000
    if stateless and rng.random() < 0.5:
        # a load source (and sometimes a daemon probe): reset() must re-prime them
        prog["source"] = {"rate": rng.choice([2.0, 4.0, 7.0, 10.0]), "dur": rng.choice([1.0, 3.0, 5.0]),
                          "probe": rng.choice([False, False, False, True, "probe_class", "probe_class"])}
        # pre-run events due exactly at the first tick of the source (1/rate) and of the Probe (0.2 s): same-instant
        # ties between what reset() re-primes and what it replays
        for _ in range(rng.choice([0, 1, 2])):
            prog["initial"].append({"t": rng.choice([int(1e9 / prog["source"]["rate"]), 200_000_000]),
                                    "to": rng.randrange(prog["n_entities"]), "k": rng.randrange(prog["n_kinds"]),
                                    "daemon": False, "cancel": False})
        # a Source keeps ticking for ever, so these programs always get an explicit end_time
        if prog["end"] is None:
            prog["end"] = rng.choice([2_000_000_000, 5_000_000_000, 8_000_000_000])
        # keep the horizon short: the periodic source/probe would otherwise tick for simulated hours
        big = 3_600_000_000_000
        for i in prog["initial"]:
            if i["t"] >= big:
                i["t"] = 1_000_000_000
        for h in prog["handlers"].values():
            for e in h.get("emits", []) + h.get("sched", []) + [x for st in h.get("steps", []) for x in st.get("emits", [])]:
                if e["dt"] >= big:
                    e["dt"] = 1_000_000_000
        if prog["end"] is not None:
            prog["end"] = min(prog["end"], 8_000_000_000)
    ops = []
    for _ in range(rng.randint(0, 14)):
        r = rng.random()
        if r < 0.25:
            ops.append({"op": "step", "n": rng.choice([1, 1, 2, 3, 7, 50])})
        elif r < 0.40:
            ops.append({"op": "resume"})
        elif r < 0.50:
            ops.append({"op": "pause_at", "index": rng.randint(1, 40), "via_time_hook": rng.random() < 0.4})
        elif r < 0.58:
            ops.append({"op": "bp_count", "count": rng.randint(1, 12), "one_shot": rng.random() < 0.7})
        elif r < 0.65:
            ops.append({"op": "bp_time", "t": rng.choice([0, 1, 1_000, 100_000_000, 200_000_000]), "one_shot": rng.random() < 0.7})
        elif r < 0.72:
            ops.append({"op": "bp_type", "k": rng.randrange(prog["n_kinds"]), "one_shot": rng.random() < 0.5})
        elif r < 0.78:
            ops.append({"op": "bp_cond", "mod": rng.randint(2, 6), "one_shot": rng.random() < 0.5})
        elif r < 0.83:
            ops.append({"op": "bp_metric", "entity": rng.randrange(prog["n_entities"]), "ge": rng.randint(0, 6),
                        "cmp": rng.choice(["ge", "ge", "le", "eq", "lt", "gt", "ne"]), "one_shot": rng.random() < 0.5})
        elif r < 0.88:
            ops.append({"op": "remove_bp", "which": rng.randrange(4)})
        elif r < 0.90:
            ops.append({"op": "clear_bps"})
        elif r < 0.93:
            ops.append({"op": rng.choice(["peek", "find", "get_state"]), "n": rng.randint(1, 5)})
        elif r < 0.96:
            # a breakpoint registered from inside an event hook while the run is going
            ops.append({"op": "bp_from_hook", "after": rng.randint(1, 12), "count": rng.randint(0, 4), "one_shot": True})
        else:
            ops.append({"op": "remove_hook"})
    prog["ctl"] = ops
    return prog


def _make_stateless(prog):
    """Acyclic emit graph (kind k only emits kinds > k), no cancel/crash."""
    nk = prog["n_kinds"]

    def fix(emits, k):
        out = []
        for e in emits:
            if k + 1 >= nk:
                continue
            e = dict(e)
            e["k"] = k + 1 + (e["k"] % (nk - k - 1))
            out.append(e)
        return out

    for key, h in prog["handlers"].items():
        k = int(key.split(":")[1])
        for f in ("cancel", "crash", "uncrash"):
            h.pop(f, None)
        h["emits"] = fix(h.get("emits", []), k)
        if "sched" in h:
            h["sched"] = fix(h["sched"], k)
        for st in h.get("steps", []):
            st["emits"] = fix(st.get("emits", []), k)


class _EntityCounter:
    pass


def _build(sc, *, control=False, trace=False):
    pr = ProgramRunner(sc)
    end = sc.get("end")
    rec = InMemoryTraceRecorder() if trace else None
    sources, probes = [], []
    src = sc.get("source")
    if src:
        from happysimulator import Source
        sources.append(Source.constant(rate=src["rate"], target=pr.entities[0], event_type="k0", name="load",
                                       stop_after=src["dur"]))
        if src.get("probe") == "probe_class":
            # the library's Probe (a daemon Source sampling an attribute into a Data sink every 0.2 s)
            from happysimulator.instrumentation.data import Data
            from happysimulator.instrumentation.probe import Probe
            pr.probe_data = Data()
            pr.entities[-1].chain_metric = 0
            probes.append(Probe(target=pr.entities[-1], metric="chain_metric", data=pr.probe_data, interval=0.2))
        elif src.get("probe"):
            probes.append(Source.constant(rate=3, target=pr.entities[-1], event_type="k0", name="probe"))
    sim = Simulation(entities=pr.entities, sources=sources or None, probes=probes or None,
                     end_time=Instant(end) if end is not None else None, trace_recorder=rec)
    pr.sim = sim
    pr.create_initial()
    for e in pr.initial_in_schedule_order():
        sim.schedule(e)
    pr.apply_late_cancels()
    return pr, sim


def _snapshot(pr, summary):
    return {
        "log": list(pr.log),
        "chains": [e.chain for e in pr.entities],
        "processed": summary.total_events_processed,
        "cancelled": summary.events_cancelled,
        "duration": summary.duration_s,
        "problems": list(pr.problems),
    }


def run_plain(sc, *, control=False, trace=False, tracing=False):
    if tracing:
        _evmod.enable_event_tracing()
    try:
        pr, sim = _build(sc, control=control, trace=trace)
        if control:
            sim.control.on_event(lambda e: None)
            sim.control.on_time_advance(lambda t: None)
        summary = sim.run()
        return _snapshot(pr, summary), pr, sim
    finally:
        if tracing:
            _evmod.disable_event_tracing()


class Bad(Exception):
    def __init__(self, sig, msg):
        super().__init__(sig)
        self.sig, self.msg = sig, msg


def run_controlled(sc, *, trace=False, tracing=False):
    """Drive the run with the generated control script; check step/breakpoint semantics."""
    if tracing:
        _evmod.enable_event_tracing()
    try:
        pr, sim = _build(sc, trace=trace)
        ctl = sim.control
        stats = {"took_effect": set(), "reasons": set(), "n_effective": 0}
        seen = {"n": 0, "types": [], "times": []}
        pause_at: set[int] = set()
        hook_bps: dict[int, list] = {}      # delivery index -> breakpoint specs to register from the hook
        added_in_segment: dict[str, dict] = {}
        bp_ids: list[str] = []
        active_bps: dict[str, dict] = {}  # id -> mirror
        metric_counts = [0] * sc["n_entities"]

        def mirror_true(m, idx):
            """Harness-side mirror of a breakpoint predicate after delivery #idx (1-based)."""
            k = m["op"]
            if idx < m.get("from_idx", 0):
                return False
            if k == "bp_count":
                return idx >= m["abs"]
            if k == "bp_time":
                return seen["times"][idx - 1] >= m["t"]
            if k == "bp_type":
                return seen["types"][idx - 1] == f"k{m['k']}"
            if k == "bp_cond":
                return idx % m["mod"] == 0
            if k == "bp_metric":
                import operator as _op
                return getattr(_op, m.get("cmp", "ge"))(m["snap"][idx - 1], m["ge"])
            return False

        snaps = {e: [] for e in range(sc["n_entities"])}

        def hook(ev):
            seen["n"] += 1
            seen["types"].append(ev.event_type)
            # the clock, not ev.time: a handler may have re-timed the event object it received
            seen["times"].append(pr.entities[0].now.nanoseconds)
            for e in range(sc["n_entities"]):
                snaps[e].append(pr.entities[e].seen_count)
            if seen["n"] in pause_at:
                ctl.pause()
            for spec in hook_bps.pop(seen["n"], []):
                m = {"op": "bp_count", "abs": seen["n"] + spec["count"], "one_shot": True, "from_idx": seen["n"]}
                bid = ctl.add_breakpoint(EventCountBreakpoint(count=m["abs"], one_shot=True))
                active_bps[bid] = m
                added_in_segment[bid] = m
                bp_ids.append(bid)
                stats["took_effect"].add("bp_from_hook")

        # entity attribute used by MetricBreakpoint
        for ent in pr.entities:
            ent.seen_count = 0
        hook_id = ctl.on_event(hook)
        hook_removed = False
        # pause() requested from a TIME hook: it fires (when the clock moves) as part of processing delivery n+1, so the
        # pause takes effect right after that delivery - exactly like a request made from the event hook of n+1, which
        # stays armed as the fall-back for deliveries that do not move the clock
        via_time_hook: set[int] = set()

        def time_hook(_t):
            if not hook_removed and seen["n"] + 1 in via_time_hook:
                stats["took_effect"].add("pause_from_time_hook")
                ctl.pause()

        ctl.on_time_advance(time_hook)

        def processed():
            return ctl.get_state().events_processed

        def complete():
            return not ctl.is_running

        def expect_pause_reason(before, requested_steps):
            """After a run segment returned while still running: explain why it paused."""
            now_n = processed()
            if hook_removed:
                return
            if now_n != seen["n"]:
                raise Bad("events-processed-ne-deliveries-observed",
                          f"get_state().events_processed={now_n} but the event hook saw {seen['n']} deliveries")
            # any delivery strictly inside the segment that satisfied an active breakpoint must have paused
            seg_bps.update(added_in_segment)
            added_in_segment.clear()
            for j in range(before + 1, now_n):
                for bid, m in list(seg_bps.items()):
                    if mirror_true(m, j):
                        raise Bad("breakpoint/missed", f"breakpoint {m} satisfied after delivery {j} but run continued to {now_n}")
                if j in seg_pause_at:
                    raise Bad("pause/ignored", f"pause requested during delivery {j} but run continued to {now_n}")
            if complete():
                # the satisfying delivery may be the very last one of the run: it still pauses right after it
                if now_n > before:
                    for bid, m in seg_bps.items():
                        if mirror_true(m, now_n):
                            raise Bad("breakpoint/missed-at-final-delivery",
                                      f"breakpoint {m} satisfied by delivery {now_n}, the last of the run, but the run "
                                      f"completed instead of pausing")
                return
            reasons = []
            if now_n > before:
                for bid, m in seg_bps.items():
                    if mirror_true(m, now_n):
                        reasons.append("breakpoint")
                        stats["took_effect"].add(m["op"])
                if now_n in seg_pause_at:
                    reasons.append("pause")
                    stats["took_effect"].add("pause_at")
            if requested_steps is not None and now_n - before == requested_steps:
                reasons.append("step")
            if not reasons:
                raise Bad("pause/unexplained", f"run paused after delivery {now_n} (segment started at {before}) with no "
                                               f"breakpoint, pause request or step budget explaining it")
            stats["reasons"].update(reasons)

        # ScriptEntity does not count deliveries itself; wrap handle_event for the metric attribute
        for ent in pr.entities:
            ent._orig_handle = ent.handle_event

            def wrapped(event, _ent=ent):
                _ent.seen_count += 1
                return _ent._orig_handle(event)

            ent.handle_event = wrapped

        ops = sc.get("ctl", [])
        ctl.pause()
        sim.run()
        if processed() != 0 or (not ctl.is_paused and ctl.is_running):
            raise Bad("pause/initial", f"pause() before run(): processed={processed()} paused={ctl.is_paused}")
        if not ctl.is_paused and sc["initial"]:
            raise Bad("pause/initial", "pause() before run() did not pause a run that has events")
        for op in ops:
            if complete():
                break
            k = op["op"]
            seg_bps = dict(active_bps)
            seg_pause_at = set(pause_at)
            if k == "step":
                before = processed()
                ctl.step(op["n"])
                after = processed()
                if not complete():
                    if after - before > op["n"]:
                        raise Bad("step/too-many", f"step({op['n']}) delivered {after - before}")
                    expect_pause_reason(before, op["n"])
                    if after - before == op["n"]:
                        stats["took_effect"].add("step")
                else:
                    expect_pause_reason(before, op["n"])
                    stats["took_effect"].add("step_to_end")
                _drop_one_shots(active_bps, ctl, mirror_true, after, before, hook_removed)
            elif k == "resume":
                before = processed()
                ctl.resume()
                expect_pause_reason(before, None)
                stats["took_effect"].add("resume")
                _drop_one_shots(active_bps, ctl, mirror_true, processed(), before, hook_removed)
            elif k == "pause_at":
                pause_at.add(processed() + op["index"])
                if op.get("via_time_hook"):
                    via_time_hook.add(processed() + op["index"])
            elif k == "bp_from_hook":
                if not hook_removed:
                    hook_bps.setdefault(processed() + op["after"], []).append(op)
            elif k.startswith("bp_"):
                m = dict(op)
                if k == "bp_count":
                    m["abs"] = processed() + op["count"]
                    bp = EventCountBreakpoint(count=m["abs"], one_shot=op["one_shot"])
                elif k == "bp_time":
                    bp = TimeBreakpoint(time=Instant(op["t"]), one_shot=op["one_shot"])
                elif k == "bp_type":
                    bp = EventTypeBreakpoint(event_type=f"k{op['k']}", one_shot=op["one_shot"])
                elif k == "bp_cond":
                    bp = ConditionBreakpoint(fn=lambda c, mod=op["mod"]: c.events_processed % mod == 0, one_shot=op["one_shot"])
                else:
                    if op["entity"] >= sc["n_entities"]:
                        raise InvalidScenario("metric entity out of range")
                    m["snap"] = snaps[op["entity"]]
                    bp = MetricBreakpoint(entity_name=f"E{op['entity']}", attribute="seen_count", operator=op.get("cmp", "ge"),
                                          threshold=op["ge"], one_shot=op["one_shot"])
                bid = ctl.add_breakpoint(bp)
                if bid in active_bps:
                    raise Bad("breakpoint/id-reused", f"add_breakpoint returned id {bid!r}, which is the id of a breakpoint that is still registered")
                active_bps[bid] = m
                bp_ids.append(bid)
                if len(ctl.list_breakpoints()) != len(active_bps):
                    raise Bad("breakpoint/registry-size", f"{len(ctl.list_breakpoints())} breakpoints registered, {len(active_bps)} expected")
            elif k == "remove_bp":
                live = [b for b in bp_ids if b in active_bps]
                if live:
                    bid = live[op["which"] % len(live)]
                    ctl.remove_breakpoint(bid)
                    del active_bps[bid]
            elif k == "clear_bps":
                ctl.clear_breakpoints()
                active_bps.clear()
            elif k == "peek":
                nxt = ctl.peek_next(op["n"])
                for a, b in zip(nxt, nxt[1:]):
                    if b < a:
                        raise Bad("peek/unsorted", "peek_next returned events out of order")
                stats["took_effect"].add("peek")
            elif k == "find":
                ctl.find_events(lambda e: True)
                stats["took_effect"].add("find")
            elif k == "get_state":
                st = ctl.get_state()
                if ctl.is_paused:
                    prim = len(ctl.find_events(lambda e: not e.daemon))
                    if st.primary_events_remaining != prim or st.heap_size != len(ctl.find_events(lambda e: True)):
                        raise Bad("get_state/heap-counts", f"primary_events_remaining={st.primary_events_remaining} heap_size="
                                                           f"{st.heap_size} but the heap holds {prim} non-daemon events")
                if st.events_processed != seen["n"] and not hook_removed:
                    raise Bad("get_state/events_processed", f"{st.events_processed} != {seen['n']} deliveries observed")
                if seen["n"] and not hook_removed and st.current_time.nanoseconds != seen["times"][-1]:
                    raise Bad("get_state/current_time", f"{st.current_time} vs last delivery {seen['times'][-1]}")
            elif k == "remove_hook":
                if not hook_removed:
                    ctl.remove_hook(hook_id)
                    hook_removed = True
                    pause_at.clear()
                    hook_bps.clear()
        # run to completion whatever is still armed
        guard = 0
        while ctl.is_running:
            guard += 1
            if guard > 200_000:
                # (each resume below is checked for progress; an always-true non-one-shot breakpoint legitimately pauses
                # after every delivery, so the bound only has to exceed the longest generated run)
                raise Bad("resume/no-progress", "200000 resumes did not finish the run")
            before = processed()
            seg_bps = dict(active_bps)
            seg_pause_at = set(pause_at)
            ctl.resume()
            expect_pause_reason(before, None)
            if not ctl.is_running and processed() == before:
                stats["took_effect"].add("paused_at_final_delivery")
            if ctl.is_running and processed() == before:
                raise Bad("resume/no-progress", f"resume() returned paused without delivering anything at {before}")
            if ctl.is_running and any(not m.get("one_shot") for m in active_bps.values()):
                stats["took_effect"].add("non_one_shot_refired")
            _drop_one_shots(active_bps, ctl, mirror_true, processed(), before, hook_removed)
        summary = sim.summary
        if summary is None:
            raise Bad("summary/missing", "run completed without a summary")
        return _snapshot(pr, summary), pr, sim, stats
    finally:
        if tracing:
            _evmod.disable_event_tracing()


def _drop_one_shots(active_bps, ctl, mirror_true, now_n, before, hook_removed=False):
    """One-shot breakpoints that triggered are removed by the engine (and only those); mirror that."""
    if now_n <= before:
        return
    live = {bid for bid, _ in ctl.list_breakpoints()}
    for bid in list(active_bps):
        m = active_bps[bid]
        if not hook_removed and ctl.is_running:
            fired = mirror_true(m, now_n)
            if fired and m.get("one_shot") and bid in live:
                raise Bad("breakpoint/one-shot-not-removed", f"{m} triggered after delivery {now_n} but is still registered")
            if bid not in live and not (fired and m.get("one_shot")):
                raise Bad("breakpoint/removed-without-trigger", f"{m} vanished at delivery {now_n}")
        if bid not in live:
            del active_bps[bid]


def _diff(base, other, end):
    if other["problems"]:
        return other["problems"][0]
    if base["log"] != other["log"]:
        n = min(len(base["log"]), len(other["log"]))
        i = next((j for j in range(n) if base["log"][j] != other["log"][j]), n)
        return ("deliveries-differ", f"first difference at delivery {i}: uninterrupted "
                f"{base['log'][i] if i < len(base['log']) else None} vs {other['log'][i] if i < len(other['log']) else None}")
    if base["chains"] != other["chains"]:
        return ("state-differs", "entity state chains differ")
    for k in ("processed", "cancelled", "duration"):
        if base[k] != other[k]:
            return (f"summary/{k}", f"{base[k]} vs {other[k]}")
    return None


def run(sc):
    _validate_prog(dict(sc, mode="control"))
    if sc.get("stateless"):
        for h in sc["handlers"].values():
            if h.get("cancel") or h.get("crash") or h.get("uncrash"):
                raise InvalidScenario("stateless program with stateful actions")
    counters = {}
    sig = msg = None
    try:
        base, _, _ = run_plain(sc)
        modes = [
            ("control-attached", lambda: run_plain(sc, control=True)[0]),
            ("trace-recorder", lambda: run_plain(sc, trace=True)[0]),
            ("event-tracing", lambda: run_plain(sc, tracing=True)[0]),
        ]
        stats = {"took_effect": set(), "reasons": set()}
        for name, fn in modes:
            d = _diff(base, fn(), sc.get("end"))
            if d:
                sig, msg = f"{name}/{d[0]}", d[1]
                break
        if sig is None:
            for name, kw in (("control-script", {}), ("control-script+trace+tracing", {"trace": True, "tracing": True})):
                try:
                    snap, pr, sim, stats = run_controlled(sc, **kw)
                except Bad as b:
                    sig, msg = f"{name.split('+')[0]}/{b.sig}", b.msg
                    break
                d = _diff(base, snap, sc.get("end"))
                if d:
                    sig, msg = f"{name.split('+')[0]}/{d[0]}", d[1]
                    break
        if sig is None and sc.get("stateless"):
            r = _reset_check(sc)
            counters["probe.reset_rerun"] = 1
            counters["probe.reset_with_source"] = int(bool(sc.get("source")))
            counters["probe.reset_rerun_without_initial_pause"] = int(not sc.get("reset_pause_first", True))
            counters["probe.reset_before_first_run"] = int(bool(sc.get("reset_before_first_run")))
            counters["probe.reset_with_probe_class"] = int((sc.get("source") or {}).get("probe") == "probe_class")
            counters["probe.reset_from_a_midrun_pause"] = int(bool(sc.pop("_midrun_paused", False)))
            counters["probe.reset_after_fast_loop_run"] = int(bool(sc.get("reset_first_fast")) and sc.get("end") is not None)
            if r:
                sig, msg = r
    except Bad as b:
        sig, msg = b.sig, b.msg
    except InvalidScenario:
        raise
    except Exception as exc:
        s = repo_exception_sig(exc)
        if s is None:
            raise
        sig, msg = s, repr(exc)
        stats = {"took_effect": set(), "reasons": set()}
        base = {"log": []}
    te = stats["took_effect"]
    counters.update({
        "probe.step_completed": int("step" in te),
        "probe.step_hit_end_of_run": int("step_to_end" in te),
        "probe.breakpoint_hit": int("breakpoint" in stats["reasons"]),
        "probe.pause_from_hook": int("pause" in stats["reasons"]),
        "probe.non_one_shot_refired": int("non_one_shot_refired" in te),
        "probe.peek_or_find": int("peek" in te or "find" in te),
    })
    counters["probe.metric_breakpoint_on_zero"] = int(any(o["op"] == "bp_metric" and o.get("cmp") in ("le", "eq", "lt") and o["ge"] <= 1
                                                           for o in sc.get("ctl", [])))
    counters["probe.breakpoint_added_from_hook"] = int("bp_from_hook" in te)
    counters["probe.pause_requested_from_time_hook"] = int("pause_from_time_hook" in te)
    counters["probe.paused_at_final_delivery"] = int("paused_at_final_delivery" in te)
    for k in te:
        counters[f"ctl.{k}"] = 1
    h = hashlib.blake2b(repr((base["log"], sc.get("ctl"))).encode(), digest_size=12).hexdigest()
    return result(sig=f"C04/{sig}" if sig else None, msg=msg or "", digest=h,
                  nontrivial=len(base["log"]) >= 5 and len(te) >= 2, counters=counters,
                  deliveries=len(base["log"]), klass="stateless" if sc.get("stateless") else "stateful",
                  state=repr((tuple(sorted(te)), tuple(sorted(stats["reasons"])), bool(sc.get("stateless")))))


def _reset_check(sc):
    """reset() followed by run() repeats the original (time, type, target) delivery sequence."""
    pr, sim = _build(sc)
    tl = []

    def tap(ev):
        tl.append((pr.entities[0].now.nanoseconds, ev.event_type))

    # run 1 either with control attached (instrumented loop) or untouched (fast loop; sim.control is not even
    # looked at before it ends) -- which loop ran first must not matter to reset()+run()
    fast_first = bool(sc.get("reset_first_fast")) and sc.get("end") is not None
    if sc.get("reset_before_first_run"):
        # a replication loop starts every run, also the first, with reset(): nothing may get lost by that
        fast_first = False
        sim.control.reset()
    if not fast_first:
        sim.control.on_event(tap)
    sim.run()
    first = list(tl)
    first_t = list(pr.tlog)
    pdata = getattr(pr, "probe_data", None)
    probe_first = list(pdata.values) if pdata is not None else []
    del tl[:]
    pr.log.clear()
    del pr.tlog[:]
    # cancelling an event that was already delivered is a documented no-op: it must not change the replay either
    for i in sc.get("post_run_cancel", []):
        if pr._created:
            pr._created[i % len(pr._created)].cancel()
    sim.control.reset()
    mid = sc.get("reset_midrun")
    if mid:
        # a second run that is abandoned half-way: paused after `mid` deliveries and reset from there
        n = [0]

        def until_mid(ev):
            n[0] += 1
            if n[0] == mid:
                sim.control.pause()

        hid = sim.control.on_event(until_mid)
        sim.run()
        sim.control.remove_hook(hid)
        sc["_midrun_paused"] = bool(sim.control.is_paused)
        del tl[:]
        pr.log.clear()
        del pr.tlog[:]
        sim.control.reset()
    probe_mark = len(pdata.values) if pdata is not None else 0
    if sc.get("reset_pause_first", True):
        sim.control.pause()         # (pausing before the first event re-aligns engine bookkeeping; half of the runs go without)
    sim.run()
    if sim.control.is_paused:
        st = sim.control.get_state()
        prim = len(sim.control.find_events(lambda e: not e.daemon))
        if st.primary_events_remaining != prim:
            return ("reset/primary-event-count", f"after reset() get_state() reports {st.primary_events_remaining} primary events, "
                                                 f"the heap holds {prim}")
        sim.control.resume()
    second = list(tl)
    if fast_first or first == second:
        # entity-side record (clock, type, entity, generator step): independent of any control hook
        first, second = first_t, list(pr.tlog)
    if pdata is not None:
        probe_second = list(pdata.values)[probe_mark:]
        if [t for t, _ in probe_first] != [t for t, _ in probe_second]:
            return ("reset/probe-samples-differ", f"the Probe took {len(probe_first)} samples in the original run and "
                                                  f"{len(probe_second)} after reset() (or at other instants)")
    for uid, step, clk, evt in pr.log:
        if step < 0 and clk != evt:
            return ("reset/clock-ne-event-time", f"after reset() an event stamped {evt}ns was delivered while the clock read {clk}ns")
    if pr.problems:
        return (f"reset/{pr.problems[0][0]}", pr.problems[0][1])
    if first != second:
        n = min(len(first), len(second))
        i = next((j for j in range(n) if first[j] != second[j]), n)
        a = first[i] if i < len(first) else None
        b = second[i] if i < len(second) else None
        had_cancel = any(x.get("cancel") for x in sc["initial"])
        if a is not None and b is not None and a[0] == b[0]:
            kind = "tie-order"
        elif had_cancel:
            kind = "pre-run-cancelled-event-resurrected"
        else:
            kind = "sequence-differs"
        return (f"reset/{kind}", f"delivery {i}: original {a} vs after reset {b}")
    return None
