#!/bin/bash
# Sensitivity mutants for C07 (development tool; not a registered command).
# Each line: tools/mutant.py on a scratch worktree of /repo HEAD, full quick tier, expects rc=1 with a NEW signature.
cd /verif
M=tools/mutant.py
# M1 forwarded event stamped with the request's (dequeue) time after the service yield
$M --replace happysimulator/components/industrial/conveyor.py 'time=self.now,' 'time=event.time,' C07
# M2 link forwards with the time of the original send after the latency yield (affects every networked protocol)
$M --replace happysimulator/components/network/link.py 'time=self.now,' 'time=event.time,' C07
# M3 zero-delay busy-wait: pool acquirers poll at now+0 (and never time out)
$M --replace happysimulator/components/client/connection_pool.py 'poll_interval = min(0.1, self._connection_timeout / 10)' 'poll_interval = 0.0' C07
# M4 periodic timer re-armed at now+0
$M --replace happysimulator/components/load_balancer/health_check.py 'time=self.now + Duration.from_seconds(self._interval),' 'time=self.now,' C07
# M5 leader heartbeat re-armed at now+0
$M --replace happysimulator/components/consensus/raft.py 'time=self.now + self._heartbeat_interval,' 'time=self.now,' C07
# M6 retry loop without attempt cap (FixedRetry) -> with zero back-off and zero timeout the client retries forever at one instant
$M --replace happysimulator/components/client/retry.py '        return attempt < self._max_attempts' '        return True' C07
# M7 revert of the Topic fix: delivery events keep the publish-time stamp
$M --replace happysimulator/components/messaging/topic.py '            delivery_event.time = emitted_at' '            pass' C07
# M8 revert of the MessageQueue fix
$M --replace happysimulator/components/messaging/message_queue.py 'time=self._clock.now if self._clock else now,' 'time=now,' C07
# M9 stale stamp in a storage-backed limiter (revert of 154b525)
$M --replace happysimulator/components/rate_limiter/distributed.py 'time=self.now if self._clock is not None else now,' 'time=now,' C07
# M10 batch processor emits the batch with the arrival time of each item
$M --replace happysimulator/components/industrial/batch_processor.py 'time=self.now,
                event_type=item.event_type,' 'time=item.time,
                event_type=item.event_type,' C07
# M11 (post-fix round) start event handed out by a component stamped with the epoch instead of the current time
$M --replace happysimulator/components/load_balancer/health_check.py 'time=self.now if self._clock is not None else Instant.Epoch,' 'time=Instant.Epoch,' C07
# M12 (post-fix round) gate reopening emits the queued items stamped with their arrival time
$M --replace happysimulator/components/industrial/gate_controller.py 'results.append(
                Event(
                    time=self.now,' 'results.append(
                Event(
                    time=queued.time,' C07
# M13 (post-fix round) revert of ddfe000: replenishment time through the float round trip
$M --replace happysimulator/components/industrial/inventory.py 'time=self.now + self.lead_time,' 'time=self.now.__class__.from_seconds(self.now.to_seconds() + self.lead_time),' C07
