#!/bin/bash
# Sensitivity mutants for C03 (development tool, not a registered command).  Each mutant is applied to a scratch worktree
# by tools/mutant.py and the quick tier must exit 1 with a signature that is not in known/C03.json.
#   checks/c03.mutants.sh            all mutants, full quick tier each (slow: one zoo pass per mutant)
cd /verif
run() { echo "##### $1"; shift; /venv/bin/python tools/mutant.py "$@" C03 -- --jobs ${JOBS:-8} 2>&1 | grep -v conda | grep -E "^violation|RESULT|rc=|pattern|Error" | cut -c1-220; }
run M01-raft-broadcast-iterates-set-of-names --replace happysimulator/components/consensus/raft.py '        events: list[Event] = []
        for peer in self._peers:
            prev_log_index' '        events: list[Event] = []
        for peer in [p for n in {q.name for q in self._peers} for p in self._peers if p.name == n]:
            prev_log_index'
run M02-link-unseeded-random-instance --replace happysimulator/components/network/link.py 'if self.packet_loss_rate > 0 and random.random() < self.packet_loss_rate:' 'if self.packet_loss_rate > 0 and random.Random().random() < self.packet_loss_rate:'
run M03-leastconn-tiebreak-by-id --replace happysimulator/components/load_balancer/strategies.py '        return min(backends, key=self._get_connections)' '        return min(backends, key=lambda b: (self._get_connections(b), id(b)))'
run M04-raft-timeout-from-wall-clock --replace happysimulator/components/consensus/raft.py '        timeout = random.uniform(self._election_timeout_min, self._election_timeout_max)' '        import time as _t
        timeout = self._election_timeout_min + (_t.time() % 1.0) * (self._election_timeout_max - self._election_timeout_min)'
run M05-queue-poll-min-uuid --replace happysimulator/components/messaging/message_queue.py '        message_id = self._pending_queue[0]' '        message_id = min(self._pending_queue)'
run M06-hashsharding-builtin-hash --replace happysimulator/components/datastore/sharded_store.py '        hash_value = int(hashlib.md5(key.encode()).hexdigest(), 16)
        return hash_value % num_shards' '        return hash(key) % num_shards'
run M07-hll-builtin-hash --replace happysimulator/sketching/hyperloglog.py '        h.update(repr(item).encode("utf-8"))' '        h.update(struct.pack(">q", hash(item)))'
run M08-swim-probe-order-from-set --replace happysimulator/components/consensus/membership.py '        self._probe_order.append(entity.name)' '        self._probe_order = list(set(self._probe_order) | {entity.name})'
run M09-roundrobin-class-level-index --replace happysimulator/components/load_balancer/strategies.py '        backend = backends[self._index % len(backends)]
        self._index += 1
        return backend' '        backend = backends[RoundRobin._shared % len(backends)]
        RoundRobin._shared += 1
        return backend

    _shared = 0'
run M10-consumergroup-rebalance-set-of-names --replace happysimulator/components/streaming/consumer_group.py '        partitions = list(range(self._event_log.num_partitions))
        consumer_names = sorted(self._consumers.keys())' '        partitions = list(range(self._event_log.num_partitions))
        consumer_names = list(set(self._consumers.keys()))'
# expected NOT caught (still deterministic: dict order = join order; all library strategies sort the names themselves)
run M11-consumergroup-rebalance-sorted-removed --replace happysimulator/components/streaming/consumer_group.py '        partitions = list(range(self._event_log.num_partitions))
        consumer_names = sorted(self._consumers.keys())' '        partitions = list(range(self._event_log.num_partitions))
        consumer_names = list(self._consumers.keys())'
