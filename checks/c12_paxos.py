"""C12 — Paxos family (single-decree, Multi-Paxos, Flexible Paxos), leader
election, distributed lock.

Real repo components run on the repo engine over a full mesh of real
`NetworkLink`s with keyed per-message delays (simkit.chaosnet); partitions,
loss windows and crash/pause windows are applied by `FaultDriver`; no message
is ever duplicated.  Oracles are evaluated after every delivery, *fine
(cause-level) invariants before the statement itself*; the run stops at the
first broken one.  A scenario with `"defer_fine": true` only records the first
fine violation and carries on until the statement itself (Agreement / Validity
/ Stability / future) breaks; its signature then ends in `/after:<fine id>`
(this is how a fine finding is demonstrated end to end).

Families and classes (DESIGN.md §5 C12) are implemented in simkit/c12_*.py:

  paxos     px-live (fault-free, bounded delay, one proposer: + liveness)
            px-nofault / px-faulty (3-5 nodes, 1-4 proposers, re-proposals)
            (px-clean3 / px-2of3 were avoidance classes for the defects fixed in c100387 / 382ed9c;
             folded back, names still accepted in replays)
  multi /   ml-live (fault-free, FIFO links, one starter: + liveness)
  flex      ml-live-jitter (fault-free, bounded jitter = reordering, back-to-back commands; liveness only:
            fine safety invariants are deferred there so recorded safety findings cannot mask it)
            ml-pingpong (fault-free FIFO links, leadership handed a -> b -> a ... every 0.3-2.5 heartbeat
            intervals, then a quiet tail with final commands for the re-established leader; liveness only)
            ml-recampaign (one node calls start() 2-4 times, bounded delays with stragglers on single
            messages, no competitor, no fault, commands one at a time; liveness only)
            ml-single (one starter, reordering) / ml-single-faulty (FIFO links + faults)
            ml-multi-fifo (several starters, FIFO links, no loss) / ml-multi (several starters + faults)
  election  bully / ring / randomized
  lock      competing requesters, lease expiry, direct and event API
"""
from __future__ import annotations

from simkit import repo

repo.activate()

from simkit.world import InvalidScenario  # noqa: E402
from simkit import c12_paxos_single as _single  # noqa: E402
from simkit import c12_multi as _multi  # noqa: E402
from simkit import c12_misc as _misc  # noqa: E402

PROPERTY = "C12"
RUNS = {"quick": 10000, "thorough": 3_000_000}
WALL = {"quick": 55, "thorough": 1500}
BATCH = {"quick": 100, "thorough": 500}
SELFTEST_RUNS = 10
SHRINK_BUDGET_S = {"quick": 20.0, "thorough": 90.0}
RULE = (
    "each case is one generated scenario of one family: single-decree PaxosNode cluster (3-5 nodes, 1-4 proposers "
    "with unique values, optional same-value re-proposal, generated retry delay), MultiPaxosNode / FlexiblePaxosNode "
    "cluster (3-5 nodes, every intersecting (q1,q2) for Flexible, 1-3 nodes calling start() at generated instants, "
    "commands submitted to whichever node is leader or queued at a non-leader), LeaderElection cluster (Bully / Ring / "
    "Randomized) or one DistributedLock with competing clients; keyed per-message delays (const / jitter / wide / "
    "stragglers), partitions, loss windows, crash/pause windows per class; non-trivial = (paxos) some node decided and "
    ">= 2 ballots or >= 1 fault took effect or it is the liveness class, (multi/flex) >= 2 slots committed somewhere, "
    "(election) some node reported a leader, (lock) >= 3 grants and >= 1 waiter was queued; distinct = distinct "
    "delivery digests"
)
STATE_MEASURE = ("distinct abstract end states: (family, class, n, sorted per-node (decided?, promised-ballot rank, "
                 "accepted-ballot rank)) for paxos; (family, n, q2, sorted per-node (is_leader, ballot rank, log length, "
                 "commit index)) for multi/flex; (strategy, sorted (term, leader)) for election; (grants, expirations, "
                 "waiters bucket) for lock")
REAL = ["happysimulator.components.consensus.paxos.PaxosNode", "happysimulator.components.consensus.multi_paxos.MultiPaxosNode",
        "happysimulator.components.consensus.flexible_paxos.FlexiblePaxosNode", "happysimulator.components.consensus.log.Log",
        "happysimulator.components.consensus.leader_election.LeaderElection",
        "happysimulator.components.consensus.election_strategies.{Bully,Ring,Randomized}Strategy",
        "happysimulator.components.consensus.distributed_lock.DistributedLock",
        "happysimulator.components.network.network.Network", "happysimulator.components.network.link.NetworkLink",
        "happysimulator.core.simulation.Simulation (instrumented loop)", "happysimulator.core.sim_future.SimFuture"]
STUBS = ["simkit.chaosnet.KeyedLatency / FaultDriver (delay, partition, loss, crash seams)",
         "RecordingStateMachine (StateMachine protocol; records applied commands)",
         "client triggers: Event.once callbacks that call propose()/start_phase1(), start(), submit()+_replicate_slot(), "
         "acquire()/try_acquire()/release() at generated instants",
         "reference models: write-once register per instance / per slot, accepted-by-acceptor table rebuilt from observed state"]
ASSUMPTIONS = [
    "a crashed/paused node keeps its state (the repo's CrashNode only sets _crashed; events addressed to it are dropped): "
    "acceptor state is therefore 'stable storage'",
    "a proposal is started the way the repo's own tests do it: propose(v) then start_phase1(); the trigger is skipped while "
    "the node is inside a crash window, and start_phase1() is not called when propose() returned an already-resolved future",
    "a command is 'submitted to an established leader' the way the repo's example (examples/distributed/"
    "flexible_paxos_quorums.py) does it: leader.submit(cmd) followed by leader._replicate_slot(leader.log.last_index) "
    "(submit() alone sends nothing); 'established leader' = a node whose is_leader is True at that instant",
    "per slot, 'reports a decided value' = the entry at an index <= log.commit_index; the commit index moving backwards "
    "is a changed decision",
    "fine invariants (one value per ballot, decide/commit only a quorum-accepted value, an Accept never contradicts a "
    "chosen value, an acceptor that answers Accepted holds the value) are necessary conditions of the statement under its "
    "own quantifier (all delays/losses/partitions): each recorded fine finding has a second replay with defer_fine=true "
    "that reaches a violation of the statement itself",
    "liveness is judged only in the fault-free classes with bounded delays, at a deadline of >= 12 maximal one-way delays "
    "(paxos) / 2 heartbeat intervals + 12 delays (multi/flex) after the last client action",
    "leader election: one strategy object may be shared by all LeaderElection nodes or each node may get its own - the "
    "API takes any ElectionStrategy instance and documents no ownership, so both wirings are generated (50/50) for every "
    "strategy class; other constructor arguments cannot be shared in a meaningful way (members/peers are copied, each "
    "Multi/Flexible node needs its own state machine, the network is shared in every run)",
    "leader election: membership is static (all members registered before start(), the same set at every node); "
    "(term, leader) pairs are read from current_term/current_leader after every delivery, leader None is not a report",
    "lock: a re-entrant acquire by the current holder returns the current grant and is not a new grant; the grant "
    "sequence is judged manager-wide in time order (1-3 lock names on one manager) as well as per lock name",
]
EXPECTED_PROBES = [
    "probe.px_promise_beyond_quorum", "probe.px_late_promise_carried_accepted_value", "probe.px_retry_after_nack",
    "probe.px_competing_ballots", "probe.px_decided_via_learn", "probe.px_value_adopted_from_promise",
    "probe.px_accepted_for_stale_ballot", "probe.px_future_resolved",
    "probe.ml_leader_change", "probe.ml_two_leaders_at_once", "probe.ml_accept_out_of_order", "probe.ml_truncate",
    "probe.ml_commit_via_heartbeat", "probe.ml_pending_assigned_on_takeover", "probe.ml_future_resolved",
    "probe.ml_promise_reported_entries", "probe.ml_quiet_handover_decided_command_applied_everywhere", "probe.ml_quiet_new_leader_re_replicated_inherited_slot",
    "probe.ml_recampaign_stale_nack_reached_leader", "probe.ml_recampaign_command_applied_everywhere",
    "probe.ml_leader_regained_after_own_tick_while_deposed", "probe.ml_pingpong_tail_command_applied_everywhere",
    "probe.ml_live_two_slots_in_flight", "probe.ml_live_acks_out_of_slot_order",
    "probe.px_falsy_value_proposed", "probe.px_falsy_value_adopted_from_promise", "probe.ml_leader_kept_leading_after_own_tick", "probe.ml_command_after_first_tick_applied_everywhere",
    "probe.flex_q2_below_majority", "probe.px_decided_on_retried_ballot", "probe.px_four_proposers",
    "probe.el_election_completed", "probe.el_shared_strategy_election_completed", "probe.el_highest_started_first",
    "probe.el_several_started_at_once", "probe.el_heartbeat_adopted", "probe.el_terms_differ_for_one_leader",
    "probe.lock_grants_interleaved_across_names", "probe.lock_expired", "probe.lock_waiter_woken", "probe.lock_reentrant", "probe.lock_stale_release_refused",
    "fault.partition", "fault.crash", "fault.pause", "fault.loss", "fault.restart",
    "fault.msgs_dropped_by_partition", "fault.msgs_dropped_by_loss", "fault.stragglers",
]
SHRINK_SKIP = ("fam", "klass", "n", "strategy")


def gen(rng, tier):
    r = rng.random()
    if r < 0.45:
        return _single.gen(rng)
    if r < 0.65:
        return _multi.gen(rng, "multi")
    if r < 0.85:
        return _multi.gen(rng, "flex")
    if r < 0.93:
        return _misc.gen_election(rng)
    return _misc.gen_lock(rng)


def validate(sc):
    """Structural validation only (what run() does first); used to prove the generator never emits an invalid scenario."""
    fam = sc.get("fam")
    if fam == "paxos":
        return _single._validate(sc)
    if fam in ("multi", "flex"):
        return _multi._validate(sc)
    if fam == "election":
        return _misc.validate_election(sc)
    if fam == "lock":
        return _misc.validate_lock(sc)
    raise InvalidScenario("fam")


def run(sc):
    fam = sc.get("fam")
    if fam == "paxos":
        return _single.run(sc)
    if fam in ("multi", "flex"):
        return _multi.run(sc)
    if fam == "election":
        return _misc.run_election(sc)
    if fam == "lock":
        return _misc.run_lock(sc)
    raise InvalidScenario("fam")
