"""C16 — caches stay within capacity, never lose writes, respect staleness bounds.

Scripted client generator processes (harness entities inside the real engine)
issue overlapping get/put/delete/invalidate/flush against the repo's real
CachedStore (9 eviction policies x write-through/write-back), MultiTierCache
and SoftTTLCache over a real KVStore with latency > 0.  Oracles run after
every delivery and at every operation completion (simkit/c16_harness.py).
DESIGN.md section 5 "C16".
"""
from __future__ import annotations

from simkit import repo

repo.activate()

from simkit import c16_harness as H  # noqa: E402
from simkit import c16_pagecache as PG  # noqa: E402
from simkit.history import check_regular_register  # noqa: E402
from simkit.rng import seed_globals  # noqa: E402
from simkit.world import result, run_sim  # noqa: E402

PROPERTY = "C16"
RUNS = {"quick": 8_000, "thorough": 6_000_000}
WALL = {"quick": 55, "thorough": 1500}
BATCH = {"quick": 100, "thorough": 1000}
SELFTEST_RUNS = 30
DELIVERY_CAP = 30_000
RULE = (
    "each case is 1-5 scripted client processes x 3-30 operations (get/put/delete/invalidate/invalidate_all/flush, plus "
    "tier-direct reads for MultiTierCache and external backing-store writes for SoftTTLCache) over 3-8 keys against one real "
    "cache layer of capacity 1-4 in front of a real KVStore with read/write/delete latency > 0; think times, latencies and "
    "TTLs lie on a microsecond grid so operations overlap and TTL zone boundaries are hit exactly; a final auditor reads every "
    "key (and flushes) at quiescence. 12 % of the cases drive a PageCache (1-4 clients x read_page/write_page/flush over 4-9 page "
    "ids, capacity 1-5, read-ahead 0-3; more than half of them 3-5 clients hammering one hot page out of 2-4 with capacity 1-3 "
    "and disk write latency >= read latency). non-trivial = at least two client operations overlapped in time AND at least one "
    "capacity eviction / promotion / stale-or-expired TTL zone read happened. distinct = distinct digests of "
    "(operation history with invoke/return stamps and results, engine delivery log)"
)
STATE_MEASURE = ("distinct (family, policy or tier policies, write mode, cache sizes, #dirty, #owed write-back values, "
                 "multiset of in-flight operation kinds) tuples observed after deliveries")
REAL = [
    "happysimulator.components.datastore.cached_store.CachedStore",
    "happysimulator.components.datastore.eviction_policies.{LRU,LFU,TTL,FIFO,Random,SLRU,SampledLRU,Clock,TwoQueue}Eviction",
    "happysimulator.components.datastore.multi_tier_cache.MultiTierCache (tiers are real write-through CachedStores)",
    "happysimulator.components.datastore.soft_ttl_cache.SoftTTLCache (incl. its _sttl_refresh events)",
    "happysimulator.components.datastore.kv_store.KVStore (backing store, latency > 0)",
    "happysimulator.components.datastore.cache_warming.CacheWarmer (extra reader in some CachedStore runs)",
    "happysimulator.components.infrastructure.page_cache.PageCache (read-ahead 0-3, capacity 1-5, disk latencies > 0)",
    "happysimulator.core.simulation.Simulation / ProcessContinuation (scheduler of the client processes)",
]
STUBS = [
    "Client / Auditor entities interpreting the JSON op lists (harness)",
    "_WarmProxy: records the CacheWarmer's reads in the history and forwards them to the real cache",
    "HKey: str subclass with a PYTHONHASHSEED-independent hash (keys 'k0'..'k7')",
    "reference models: regular-register interval rule, write-back 'owed values' model, backing-store applied-value timeline",
]
ASSUMPTIONS = [
    "operations are concurrent iff their [invoke, return] intervals in the single-threaded engine overlap; a read may return "
    "the latest write completed before its invocation, a completed write that overlapped that one, or any write concurrent "
    "with the read (regular register, same rule as C14)",
    "SoftTTLCache hard TTL is judged at the instant the cache selects the entry: the invocation instant for fresh/stale hits "
    "(the value is returned one cache-read latency later; weaker reading), the wake-up instant for a reader that joined an "
    "in-flight refresh (it returns in that same instant; one cache-read latency of slack is granted); age == hard_ttl is not 'older'; "
    "writes made directly to the backing store (other parties) may be served stale for at most hard_ttl, writes made through "
    "the cache API may not be followed by older values at all",
    "2Q ghost entries (A1out) are non-resident by design and are not counted as 'tracked keys'",
    "eviction *order* (which victim a policy picks) is outside the statement and is not judged",
    "invalidate()/invalidate_all() of a dirty write-back entry counts as discarding write-back data (the statement lists "
    "invalidations among the interleavings and says 'never discarded'); recorded as its own narrow finding",
    "MultiTierCache tiers are write-through CachedStores sharing the backing store; lower tiers are only ever populated by "
    "reading through the tier object directly (op 'tget'), since MultiTierCache itself never demotes",
    "TTLEviction always gets clock_func = simulated clock; write_policies.py classes are not wired to any cache and are not exercised",
    "PageCache (named in the anchors) holds page ids and dirty bits, no values: judged on capacity, on 'a dirty page never leaves "
    "the dirty state without an accounted disk write-back' and on the flush post-condition; contents are not versioned, so a "
    "write absorbed by a write-back that is already in flight is not detected",
]
EXPECTED_PROBES = [
    "probe.eviction", "probe.cache_full", "probe.read_overlapped_write_same_key", "probe.miss_fill",
    "probe.dirty_pending", "probe.writeback_reached_store", "probe.invalidate_dirty", "probe.put_during_flush",
    "probe.flush_wrote", "probe.lower_tier_hit", "probe.promotion",
    "probe.sttl_fresh", "probe.sttl_stale", "probe.sttl_miss", "probe.sttl_coalesced",
    "probe.sttl_read_of_expired_entry", "probe.sttl_coalesced_on_expired_entry",
    "probe.read_exactly_at_soft_ttl", "probe.read_exactly_at_hard_ttl", "probe.read_1us_from_zone_boundary",
    "probe.sttl_refresh_in_flight", "probe.audit_completed",
    # behaviour reachable since the C16 fixes were committed
    "probe.dirty_eviction_written_back", "probe.flush_kept_redirtied_key", "probe.fill_skipped_newer_entry",
    "probe.sttl_coalesced_reader_refetched", "probe.fill_cached_regressed_backing_value",
    "probe.sttl_coalesced_served_entry_past_half_hard_ttl", "probe.sttl_hard_ttl_below_read_latency",
    # PageCache family
    "probe.page_eviction", "probe.page_cache_full", "probe.page_readahead_loaded", "probe.page_dirty_eviction_written_back",
    "probe.page_readahead_window_over_dirty_page", "probe.page_readahead_over_dirty_page_with_room", "probe.page_write_hit",
    "probe.page_flush_wrote", "probe.page_audit_completed", "probe.page_read_write_miss_same_page_behind_dirty_victim",
    "probe.lower_tier_hit_while_write_in_flight",
    "probe.page_write_miss_waited_for_room", "probe.page_read_landed_inside_write_miss_wait",
    "probe.page_writeback_completed_without_page_leaving_dirty_state",
]
SHRINK_SKIP = ("family", "klass")

GRID = (0, 0, 0, 0, 100, 100, 200, 300, 500, 500, 1000, 1000, 2000, 3000, 5000)


# ---------------------------------------------------------------------------
# generator
# ---------------------------------------------------------------------------

def _policy(rng, name=None):
    name = name or rng.choice(H.POLICIES)
    p = {"name": name}
    if name == "ttl":
        p["ttl_us"] = rng.choice((300, 1000, 2000, 5000, 20000))
    if name in ("random", "sampled"):
        p["pseed"] = rng.randrange(1, 1 << 16)
    if name == "sampled":
        p["sample"] = rng.choice((1, 2, 3, 5))
    if name in ("slru", "twoq") and rng.random() < 0.3:
        p["half"] = True
    return p


def _lat(rng):
    w = rng.choice((200, 300, 500, 1000, 2000, 3000))
    return {"r": rng.choice((100, 200, 500, 1000, 2000)), "w": w,
            "d": rng.choice((w, w, 100, 500, 1500)), "c": rng.choice((0, 100, 100, 100, 500, 1000))}


def _gap(rng, extra=()):
    if extra and rng.random() < 0.45:
        g = rng.choice(extra)
    else:
        g = rng.choice(GRID)
    if g > 0 and rng.random() < 0.08:
        g += rng.choice((-1, 1))
    return max(0, g)


def _key(rng, pool):
    if rng.random() < 0.45:
        return pool[0]
    return rng.choice(pool)


def _clients(rng, fam, nk, weights, *, own, extra_gaps=(), tiers=0):
    n_clients = rng.choice((1, 2, 2, 3, 3, 3, 4, 4, 5))
    if own:
        n_clients = min(n_clients, nk)  # every client owns at least one key nobody else touches
    kinds = list(weights)
    wts = [weights[x] for x in kinds]
    out = []
    for ci in range(n_clients):
        if own:
            pool = [k for k in range(nk) if k % n_clients == ci]
        else:
            pool = list(range(nk))
            rng.shuffle(pool)
            if rng.random() < 0.7:
                # most clients fight over the same hot key
                hot = 0
                pool.remove(hot)
                pool.insert(0, hot)
        n_ops = min(30, max(3, int(rng.expovariate(1 / 11)) + 3))
        ops = []
        for _ in range(n_ops):
            o = rng.choices(kinds, wts)[0]
            op = {"o": o, "g": _gap(rng, extra_gaps)}
            if o not in ("inval_all", "flush"):
                op["k"] = _key(rng, pool)
            if o == "tget":
                op["t"] = rng.randrange(1, tiers)
            ops.append(op)
            if o in ("put", "delete", "xput", "xdel") and rng.random() < 0.35:
                # read-your-write probe shortly after the write returned
                ops.append({"o": "get", "k": op["k"], "g": rng.choice((0, 0, 100, 500))})
        out.append({"t0": rng.choice((0, 0, 0, 100, 200, 500, 1000)), "ops": ops[:30]})
    return out


def _gen_page(rng):
    """PageCache: 1-4 clients x read_page/write_page/flush over 4-9 page ids, capacity 1-5, read-ahead 0-3."""
    hammer = rng.random() < 0.55
    if hammer:
        # several clients hammer one hot page with interleaved read and write misses over very few pages, while dirty
        # victims are being written back (disk write latency >= read latency): check-then-act across a write-back wait
        nk = rng.randrange(2, 5)
        n_clients = rng.choice((3, 3, 4, 5))
        r = rng.choice((100, 200, 500, 1000))
        sc = {"seed": rng.getrandbits(48), "family": "page", "n_keys": nk, "cap": rng.choice((1, 2, 2, 3)),
              "ra": rng.choice((0, 0, 0, 1)), "audit": True,
              "lat": {"r": r, "w": r * rng.choice((1, 2, 2, 4))}, "klass": "page-hammer"}
    else:
        nk = rng.randrange(4, 10)
        n_clients = rng.choice((1, 1, 2, 3, 4))
        sc = {"seed": rng.getrandbits(48), "family": "page", "n_keys": nk, "cap": rng.randrange(1, 6),
              "ra": rng.choice((0, 1, 1, 2, 2, 3)), "audit": True,
              "lat": {"r": rng.choice((100, 200, 500, 1000)), "w": rng.choice((100, 200, 500, 1000, 2000))},
              "klass": "page-sequential" if n_clients == 1 else "page-concurrent"}
    clients = []
    for _ in range(n_clients):
        ops = []
        for _ in range(min(30, int(rng.expovariate(1 / 12)) + 4)):
            if hammer:
                o = rng.choices(PG.PAGE_OPS, (9, 10, 0.7))[0]
                op = {"o": o, "g": rng.choice((0, 0, 0, 100, 100, 200, 500, sc["lat"]["r"], sc["lat"]["w"]))}
                if o != "pflush":
                    op["k"] = 0 if rng.random() < 0.5 else rng.randrange(nk)
            else:
                o = rng.choices(PG.PAGE_OPS, (10, 8, 1.5))[0]
                op = {"o": o, "g": _gap(rng)}
                if o != "pflush":
                    op["k"] = rng.randrange(nk)
            ops.append(op)
        clients.append({"t0": rng.choice((0, 0, 100, 500)), "ops": ops})
    sc["clients"] = clients
    return sc


def gen(rng, tier):
    fam = rng.choices(H.FAMILIES + ("page",), (0.54, 0.17, 0.17, 0.12))[0]
    if fam == "page":
        return _gen_page(rng)
    nk = rng.randrange(3, 9)
    sc = {"seed": rng.getrandbits(48), "family": fam, "n_keys": nk, "lat": _lat(rng),
          "initial": sorted(rng.sample(range(nk), rng.randrange(0, nk + 1))), "audit": True}
    if fam == "cs":
        wb = rng.random() < 0.5
        sc["wb"] = wb
        sc["policy"] = _policy(rng)
        own = False
        if not wb:
            # (the own-keys avoidance class existed for the miss-fill races repaired in b0e4dcd / 2877c36: folded back)
            sc["cap"] = rng.randrange(1, 5)
            sc["klass"] = "cs-wt"
            weights = {"get": 10, "put": 7, "delete": 3, "inval": 2, "inval_all": 0.4, "flush": 0.3}
        else:
            # avoidance knobs for the two write-back findings that are still recorded: invalidate of a dirty entry,
            # and a flush write that is still in flight when a delete / eviction write-back of the key lands.
            # (no-eviction and own-keys classes existed for defects repaired in 40ee718 / 2877c36 / 1b301da: folded back;
            # every write-back class now runs under capacity pressure)
            r = rng.random()
            noinv, lateflush = False, False
            if r < 0.40:
                sc["klass"] = "cs-wb"
            elif r < 0.70:
                noinv, sc["klass"] = True, "cs-wb-no-invalidate"
            else:
                noinv, lateflush, sc["klass"] = True, True, "cs-wb-no-invalidate-flush-at-quiescence"
            sc["cap"] = rng.randrange(1, 5)
            if rng.random() < 0.2:
                # slow backing reads: a miss overlaps whole flush/delete/put episodes and caches what it finds
                sc["lat"]["r"] = rng.choice((2000, 3000, 5000))
            weights = {"get": 10, "put": 8, "delete": 2.5, "inval": 0 if noinv else 2,
                       "inval_all": 0 if noinv else 0.4, "flush": 0 if lateflush else 2.5}
        sc["clients"] = _clients(rng, fam, nk, {k: v for k, v in weights.items() if v}, own=own)
        if rng.random() < 0.2 and not own:
            sc["warmer"] = {"keys": [rng.randrange(nk) for _ in range(rng.randrange(1, 6))],
                            "every_us": rng.choice((100, 500, 1000, 3000))}
    elif fam == "mtc":
        nt = rng.choice((1, 2, 2, 2, 3))
        sc["tiers"] = [{"cap": rng.randrange(1, 5), "policy": _policy(rng), "c": rng.choice((0, 100, 500, 1000, 2000))}
                       for _ in range(nt)]
        sc["promo"] = rng.choice(("always", "always", "on_second_access", "never"))
        r = rng.random()
        own = r < 0.25
        extra = ()
        if r >= 0.55:
            # lower-tier race class: the key lives in L2 but not in the tiny L1 (L2 is warmed through the tier's public
            # get(), L1 entries are pushed out by reads of other keys), promotion is on, the lower tier is slow, and gets
            # race puts/deletes of the same hot key -- lower-tier hits in flight while a write lands / completes
            nt = rng.choice((2, 2, 2, 3))
            w_ = sc["lat"]["w"] = rng.choice((500, 1000, 1000, 2000))
            sc["lat"]["d"] = rng.choice((w_, w_, 500))
            sc["tiers"] = [{"cap": rng.choice((1, 1, 2)), "policy": _policy(rng), "c": rng.choice((0, 100))}] + [
                {"cap": rng.randrange(2, 5), "policy": _policy(rng), "c": rng.choice((w_ // 2, w_, w_, 2 * w_, 3000))}
                for _ in range(nt - 1)]
            sc["promo"] = rng.choice(("always", "always", "on_second_access"))
            sc["klass"] = "mtc-lower-tier-race"
            weights = {"get": 10, "put": 6, "delete": 1.5, "inval": 0.5, "tget": 8}
            extra = (w_ // 2, w_, w_ + 100, w_ + w_ // 2, 2 * w_ - 100, 2 * w_)
        else:
            sc["klass"] = "mtc-own-keys" if own else "mtc"
            weights = {"get": 10, "put": 6, "delete": 3, "inval": 1.5, "inval_all": 0.3}
            if nt > 1:
                weights["tget"] = 5
        sc["clients"] = _clients(rng, fam, nk, weights, own=own, tiers=nt, extra_gaps=extra)
    else:
        hard = rng.choice((100, 200, 300, 500, 500, 1000, 1000, 2000, 3000, 5000))  # incl. hard TTL < backing read latency
        if rng.random() < 0.3:
            sc["lat"]["r"] = rng.choice((1000, 2000, 3000))
        soft = min(hard, rng.choice((0, 200, 500, 1000, hard // 2, hard - 100, hard)))
        sc["soft"], sc["hard"] = soft, hard
        sc["cap"] = rng.choice((1, 1, 2, 2, 3, 4, None))
        weights = {"get": 14, "put": 5, "inval": 1.5, "inval_all": 0.3}
        # (the avoidance class for the coalesced-reader defects repaired in 85a7b5a is folded back; what remains is the
        # fault-injecting class -- writers behind the cache's back -- and the clean class)
        if rng.random() < 0.6:
            sc["klass"] = "sttl-external-writers"
            weights.update({"xput": 2.5, "xdel": 2.5})
        else:
            sc["klass"] = "sttl-cache-api-only"
        r, c = sc["lat"]["r"], sc["lat"]["c"]
        extra = [g for g in (soft, hard, soft - r, hard - r, hard - c, soft - c, hard - r - c, hard + 100, hard - 100) if g >= 0]
        sc["clients"] = _clients(rng, fam, nk, weights, own=False, extra_gaps=tuple(extra))
    return sc


# ---------------------------------------------------------------------------
# run
# ---------------------------------------------------------------------------

def fam_is_sttl_short(sc) -> bool:
    return sc["family"] == "sttl" and sc["hard"] < sc["lat"]["r"]


def _run_page(sc):
    PG.validate_page(sc)
    seed_globals(int(sc.get("seed", 0)))
    w = PG.PageWorld(sc, cap=DELIVERY_CAP)
    status, payload = run_sim(w.sim)
    sig, msg = None, ""
    if status in ("violation", "exception"):
        sig, msg = payload.sig, payload.msg
        if not sig.startswith(PROPERTY + "/"):
            sig = f"{PROPERTY}/{sig}"
    elif status == "ok":
        if w.audited:
            w.probe("probe.page_audit_completed")
        try:
            if w.audited:
                w.final_checks()
            elif w.pending_loss:  # run ended (no write-back can still be in flight) with an unpaid lost write
                raise H.Violation(w.pending_loss[0]["sig"], w.pending_loss[0]["msg"])
        except H.Violation as v:
            sig, msg = v.sig, v.msg
    counters = dict(w.probes)
    counters.update(w.counts)
    counters[f"cell.page.ra{sc.get('ra', 0)}"] = 1
    counters["ops_completed"] = w.n_completed
    counters["budget_exhausted"] = int(status == "budget")
    interesting = w.probes.get("probe.page_eviction") or w.probes.get("probe.page_readahead_loaded")
    return result(sig=sig, msg=msg, digest=w.history_digest(), nontrivial=bool(interesting and w.n_completed >= 4),
                  counters=counters, sim_s=w.mon.last_time_ns / 1e9, deliveries=w.mon.seq,
                  klass=sc.get("klass", "page"), state=[f"page:ra{sc.get('ra', 0)}|{s}" for s in sorted(w.states)])


def run(sc):
    if isinstance(sc, dict) and sc.get("family") == "page":
        return _run_page(sc)
    H.validate(sc)
    seed_globals(int(sc.get("seed", 0)))
    w = H.World(sc, cap=DELIVERY_CAP)
    status, payload = run_sim(w.sim)
    sig, msg = None, ""
    if status in ("violation", "exception"):
        sig, msg = payload.sig, payload.msg
        if not sig.startswith(PROPERTY + "/"):
            sig = f"{PROPERTY}/{sig}"
    elif status == "ok":
        if w.audited:
            w.probe("probe.audit_completed")
            try:
                w.final_checks()
            except H.Violation as v:
                sig, msg = v.sig, v.msg
        if sig is None and sc["family"] != "sttl":
            # cross-check of the online judge with the kit's whole-history checker (must agree)
            bad = check_regular_register(w.hist.ops, initial=w.initial)
            if bad is not None:
                raise AssertionError(f"online read judge missed what check_regular_register reports: {bad}")
    fam = sc["family"]
    if fam == "cs":
        cell = f"{sc['policy']['name']}.{'wb' if sc.get('wb') else 'wt'}"
        head = f"cs:{cell}"
    elif fam == "mtc":
        cell = "+".join(t["policy"]["name"] for t in sc["tiers"])
        head = f"mtc:{cell}:{sc.get('promo', 'always')}"
    else:
        cell = "sttl"
        head = "sttl"
    counters = dict(w.probes)
    if fam_is_sttl_short(sc):
        counters["probe.sttl_hard_ttl_below_read_latency"] = 1
    counters.update(w.counts)
    # refutation evidence for the DESIGN hypothesis "evict() returning None lets the cache exceed capacity"
    counters.setdefault("evict_returned_none_while_full", 0)
    if fam == "mtc":
        counters.setdefault("lower_tier_hit_after_put_backing_write_landed", 0)  # expected 0 on a correct put()
    if w.probes.get("probe.put_during_flush"):
        counters["fault.put_while_flush_in_flight"] = 1
    if w.probes.get("probe.read_overlapped_write_same_key"):
        counters["fault.read_overlapped_write_same_key"] = 1
    counters[f"cell.{fam}.{cell}" if fam == "cs" else f"cell.{fam}"] = 1
    if fam == "mtc":
        for t in sc["tiers"]:
            counters[f"cell.mtc-tier.{t['policy']['name']}"] = 1
        counters[f"cell.mtc-promo.{sc.get('promo', 'always')}"] = 1
    counters["ops_completed"] = w.n_completed
    counters["budget_exhausted"] = int(status == "budget")
    interesting = any(w.probes.get(p) for p in ("probe.eviction", "probe.promotion", "probe.sttl_stale",
                                                 "probe.sttl_read_of_expired_entry"))
    return result(
        sig=sig, msg=msg, digest=w.history_digest(),
        nontrivial=bool(w.overlap_any and interesting),
        counters=counters, sim_s=w.mon.last_time_ns / 1e9, deliveries=w.mon.seq,
        klass=sc.get("klass", fam), state=[f"{head}|{s}" for s in sorted(w.states)],
    )
