"""C05 — partitioned parallel execution is equivalent to sequential execution.

A generated stateless script program is split into partitions connected by
PartitionLinks; it runs under ParallelSimulation with the worker pool replaced
by a harness executor whose task order is a seeded choice (mode "serial") or by
baton-passing real threads pre-empted at every EventHeap.pop (mode "threads"),
and in one sequential Simulation.  Per-entity delivery histories are compared.
DESIGN.md section 5 C05.
"""
from __future__ import annotations

import hashlib
import logging
import random
import threading

from simkit import repo

repo.activate()

import happysimulator.parallel.coordinator as _coord  # noqa: E402
import happysimulator.parallel.simulation as _psim  # noqa: E402
from happysimulator.core.entity import Entity  # noqa: E402
from happysimulator.core.event import Event  # noqa: E402
from happysimulator.core.event_heap import EventHeap  # noqa: E402
from happysimulator.core.sim_future import SimFuture  # noqa: E402
from happysimulator.core.simulation import Simulation  # noqa: E402
from happysimulator.core.temporal import Instant  # noqa: E402
from happysimulator.instrumentation.recorder import InMemoryTraceRecorder  # noqa: E402
from happysimulator.parallel import ParallelSimulation, PartitionLink, SimulationPartition  # noqa: E402

from simkit.world import InvalidScenario, repo_exception_sig, result  # noqa: E402

PROPERTY = "C05"
RUNS = {"quick": 6_000, "thorough": 3_000_000}
WALL = {"quick": 50, "thorough": 1500}
BATCH = {"quick": 100, "thorough": 500}
CPU_LIMIT_S = 60          # a generated program is a few hundred deliveries: milliseconds of CPU
TIMEOUT_SIG = "run-does-not-terminate"
RULE = (
    "each case is a generated stateless script model of 2-4 partitions (1-3 entities each) with directed PartitionLinks "
    "(min latency from {1ms,0.1s,0.7s,1s}), intra-partition traffic (lists and generator processes) and cross-partition "
    "sends with delay >= the link minimum (exactly the minimum, +1ns, multiples), window_size in (0, min latency] incl. "
    "non-representable fractions, initial events exactly on / 1ns before / 1ns after window boundaries and after idle gaps "
    "of several windows, end_time none/on-boundary/between; run under ParallelSimulation with a seeded task order (or "
    "baton-passing threads switched at every heap pop) and in one sequential Simulation; non-trivial = >=1 cross-partition "
    "event delivered and >=6 deliveries; distinct = distinct per-entity history digests"
)
STATE_MEASURE = "distinct (partitions, window/latency ratio bucket, windows bucket, cross events bucket, idle-gap seen, mode) tuples"
REAL = ["happysimulator.components.server.server.Server / QueuedResource (as a never-queueing stage inside partitions)",
        "happysimulator.parallel.ParallelSimulation / WindowedCoordinator / make_event_router / validate_partitions",
        "happysimulator.core.simulation.Simulation._run_window/_execute_until", "happysimulator.core.event_heap.EventHeap"]
STUBS = ["ThreadPoolExecutor/as_completed replaced in the two parallel modules by a seeded serial executor or "
         "baton-passing real threads (the *choice* of who runs is the harness's)", "script entities (harness)",
         "sequential Simulation of the same model as the oracle (real code)"]
ASSUMPTIONS = [
    "handlers are stateless (what an entity emits depends only on the event it receives), so reordering same-instant "
    "deliveries cannot change the multiset of later deliveries",
    "PartitionLink.latency override and packet_loss are not used (the statement quantifies over delays that respect the minimum)",
    "deliveries later than end_time are outside the statement",
    "a sender may retract (cancel) an emitted cross-partition event only two or more windows before it is due",
    "daemon events are generated only together with an explicit end_time (with no end_time the sequential engine "
    "auto-terminates on primary events while partitions run their heaps dry, which differs by definition)",
]
EXPECTED_PROBES = ["probe.cross_event_delivered", "probe.event_on_window_boundary", "probe.idle_partition_then_cross",
                   "probe.window_eq_min_latency", "probe.pingpong", "probe.independent_partitions", "probe.threads_mode",
                   "probe.daemon_events_with_end_time", "probe.nonzero_start_time", "probe.end_given_as_duration",
                   "probe.outage_dropped_a_delivery", "probe.future_parked_across_windows", "probe.link_declared_twice",
                   "probe.decoy_model_constructed", "probe.source_inside_partition", "probe.partition_with_trace_recorder", "probe.cross_event_retracted_by_sender", "probe.composite_entity_with_undeclared_inner_part", "probe.library_server_inside_linked_partition"]
SHRINK_SKIP = ("n_kinds",)

LAT_NS = [1_000_000, 100_000_000, 700_000_000, 1_000_000_000]


# --------------------------------------------------------------------------
# generation
# --------------------------------------------------------------------------

def gen(rng, tier):
    n_parts = rng.randint(2, 4)
    parts = [rng.randint(1, 3) for _ in range(n_parts)]
    ent_part = [p for p, n in enumerate(parts) for _ in range(n)]
    n_ent = len(ent_part)
    n_kinds = rng.randint(2, 5)
    independent = rng.random() < 0.12
    links = {}
    base = rng.choice(LAT_NS)
    lat_choices = [base, base, 2 * base, 7 * base]
    if not independent:
        for a in range(n_parts):
            for b in range(n_parts):
                if a != b and rng.random() < 0.6:
                    links[f"{a}>{b}"] = rng.choice(lat_choices)
        if not links:
            links["0>1"] = rng.choice(lat_choices)
        if rng.random() < 0.5:  # make ping-pong possible
            k = rng.choice(sorted(links))
            a, b = k.split(">")
            links.setdefault(f"{b}>{a}", rng.choice(lat_choices))
    lmin = min(links.values()) if links else 100_000_000
    wkind = rng.choice(["default", "eq", "half", "third", "odd", "tiny"])
    window = {"default": None, "eq": lmin / 1e9, "half": lmin / 2e9, "third": lmin / 3e9,
              "odd": lmin * 0.37 / 1e9, "tiny": lmin / 4e9}[wkind]
    if not links:
        window = None
    w_ns = lmin if window is None else max(1, int(window * 1e9))

    def emit(src_ent, k):
        out = []
        for _ in range(rng.choice([0, 1, 1, 2, 3])):
            if k + 1 >= n_kinds:
                break
            to = rng.randrange(n_ent)
            a, b = ent_part[src_ent], ent_part[to]
            if a != b:
                key = f"{a}>{b}"
                if key not in links:
                    continue
                lat = links[key]
                dt = lat + rng.choice([0, 0, 1, w_ns, lat, 3 * w_ns - 1])
            else:
                dt = rng.choice([0, 0, 1, w_ns - 1, w_ns, w_ns + 1, 2 * w_ns, w_ns // 2 + 1, 7 * w_ns])
            em = {"dt": max(0, dt), "to": to, "k": rng.randint(k + 1, n_kinds - 1), "daemon": rng.random() < 0.25}
            if a != b and dt >= 3 * w_ns and rng.random() < 0.3:
                # the sender keeps the handle and retracts the message well before it is due (at least two windows
                # earlier: a later cancel would be an influence faster than the declared minimum latency)
                em["cancel_after"] = rng.choice([0, 1, w_ns // 2, dt - 2 * w_ns])
            out.append(em)
        return out

    handlers = {}
    for e in range(n_ent):
        for k in range(n_kinds):
            if rng.random() < 0.15:
                continue
            h = {"shape": rng.choice(["list", "list", "gen"]), "emits": emit(e, k)}
            if h["shape"] == "gen":
                h["steps"] = [{"d_ns": rng.choice([0, 1, w_ns, w_ns - 1, w_ns // 3 + 1, 2 * w_ns + 1]), "emits": emit(e, k)}
                              for _ in range(rng.randint(1, 3))]
                for st in h["steps"]:
                    if rng.random() < 0.25:
                        # the wait is a SimFuture park; a callback event of the same partition resolves it d_ns later
                        st["fut"] = True
            handlers[f"{e}:{k}"] = h
    base_times = [0, w_ns - 1, w_ns, w_ns + 1, 2 * w_ns, 3 * w_ns + 1, 10 * w_ns, 25 * w_ns - 1, 40 * w_ns]
    initial = [{"t": rng.choice(base_times), "to": rng.randrange(n_ent), "k": rng.randrange(max(1, n_kinds - 2)),
                "daemon": rng.random() < 0.25}
               for _ in range(rng.randint(1, 10))]
    endk = rng.choice(["none", "none", "boundary", "between", "far"] + (["zero"] if rng.random() < 0.1 else []))
    end = {"none": None, "zero": 0, "boundary": rng.choice([5, 12, 30]) * w_ns, "between": rng.choice([5, 12, 30]) * w_ns + w_ns // 2 + 1,
           "far": 500 * w_ns}[endk]
    if end is None:  # daemon work only with an explicit end_time (auto-termination is sequential-only semantics)
        for h in handlers.values():
            for e in h.get("emits", []) + [x for st in h.get("steps", []) for x in st.get("emits", [])]:
                e["daemon"] = False
        for i in initial:
            i["daemon"] = False
    # non-zero start_time (everything shifts with it) and end given as duration=
    start = rng.choice([0, 0, 0, w_ns, 3 * w_ns + 1, 1_000_000_007])
    use_duration = end is not None and rng.random() < 0.4
    # outages: an entity is down ([s, e), the repo's _crashed counter) - only in models with an explicit end or finite traffic
    outages = []
    if rng.random() < 0.3:
        for _ in range(rng.randint(1, 3)):
            s0 = rng.choice([1, 2, 4, 9, 11, 24]) * w_ns + rng.choice([-1, 0, 1, w_ns // 2])
            length = rng.choice([w_ns // 4 + 1, w_ns - 1, w_ns, w_ns + 1, 2 * w_ns + 3, lmin // 2 + 1])
            outages.append({"ent": rng.randrange(n_ent), "s": max(1, s0), "e": max(1, s0) + max(1, length)})
    mode = "threads" if rng.random() < (0.03 if tier == "quick" else 0.08) else "serial"
    if mode == "threads":  # real threads are slow: keep the horizon short
        end = min(end, 15 * w_ns) if end is not None else 15 * w_ns
    # load Sources inside partitions (ticks on / around window boundaries); a Source never stops, so an explicit end
    sources = []
    if rng.random() < 0.2 and mode != "threads":
        if end is None:
            end = rng.choice([5, 12, 30]) * w_ns + rng.choice([0, w_ns // 2 + 1])
        for _ in range(rng.randint(1, 2)):
            sources.append({"ent": rng.randrange(n_ent), "every_w": rng.choice([0.5, 1, 1, 2.5, 3])})
    dup_links = [k for k in sorted(links) if rng.random() < 0.1]      # the same directed pair declared twice
    decoy = rng.choice(["before", "after"]) if rng.random() < 0.15 else None
    # composite entities: the declared entity passes its work to an undeclared internal part (0 / 1 ns / half a window later)
    composite = {str(e): rng.choice([0, 0, 1, w_ns // 2, ["server", 0], ["server", 1_000_000], ["server", w_ns // 2 + 1]])
                 for e in range(n_ent) if rng.random() < 0.12}
    traced = [p for p in range(n_parts) if rng.random() < 0.08]      # partitions with their own trace recorder
    return {"dup_links": dup_links, "decoy": decoy, "sources": sources, "traced_parts": traced, "composite": composite,
            "parts": parts, "n_kinds": n_kinds, "links": links, "window": window, "handlers": handlers,
            "initial": initial, "end": end, "start": start, "use_duration": use_duration, "outages": outages, "mode": mode,
            "sched_seed": rng.randrange(2**31), "workers": rng.randint(1, n_parts)}


# --------------------------------------------------------------------------
# model
# --------------------------------------------------------------------------

class _Helper(Entity):
    """Internal part of a composite entity (like the queue/driver/worker inside the library's QueuedResource): it is not
    declared to the simulation or to any partition; its owner hands the clock on and routes its work through it."""

    def __init__(self, owner):
        super().__init__(f"{owner.name}.inner")
        self._owner = owner

    def handle_event(self, event):
        return self._owner._handle(event)


class PEntity(Entity):
    def __init__(self, idx, world):
        super().__init__(f"E{idx}")
        self.idx = idx
        self._w = world
        self.hist: list[tuple] = []
        comp = world.sc.get("composite", {}).get(str(idx))
        self._inner = _Helper(self) if comp is not None else None
        self._server = None
        if isinstance(comp, list):
            # the library's own composite: a Server (QueuedResource: queue + driver + worker inside) that never queues
            # (huge concurrency) and hands the request to the internal part after a constant service time
            from happysimulator.components.server.server import Server
            from happysimulator.distributions.constant import ConstantLatency
            self._server = Server(f"E{idx}.srv", concurrency=1_000_000, service_time=ConstantLatency(comp[1] / 1e9),
                                  downstream=self._inner)
            comp = 0
        self._inner_delay = comp or 0

    def set_clock(self, clock):
        super().set_clock(clock)
        if self._inner is not None:
            self._inner.set_clock(clock)
        if self._server is not None:
            self._server.set_clock(clock)

    def handle_event(self, event):
        if self._server is not None:
            return [Event(time=self.now, event_type=event.event_type, target=self._server, daemon=event.daemon)]
        if self._inner is not None:
            # composite: the work is done by the internal part, `_inner_delay` ns later
            return [Event(time=Instant(self.now.nanoseconds + self._inner_delay), event_type=event.event_type,
                          target=self._inner, daemon=event.daemon)]
        return self._handle(event)

    def _handle(self, event):
        now = self.now.nanoseconds
        if now != event.time.nanoseconds:
            self._w.problems.append(("clock-ne-event-time", f"{self.name}: clock {now} vs event {event.time.nanoseconds}"))
        self.hist.append((now, event.event_type, -1))
        h = self._w.sc["handlers"].get(f"{self.idx}:{event.event_type[1:]}")
        if h is None:
            return None
        if h["shape"] == "gen":
            return self._proc(event.event_type, h)
        return self._w.make(now, h.get("emits", []))

    def _proc(self, etype, h):
        step = 0
        for st in h.get("steps", []):
            evs = self._w.make(self.now.nanoseconds, st.get("emits", []))
            if st.get("fut"):
                fut = SimFuture()
                evs.append(Event.once(time=Instant(self.now.nanoseconds + st["d_ns"]), event_type="fut.resolve",
                                      fn=lambda e, fut=fut: fut.resolve(None), daemon=self._w.sc.get("end") is not None and st.get("daemon", False)))
                t_park = self.now.nanoseconds
                yield 0.0, evs
                yield fut
                w_ns = self._w.w_ns
                if (self.now.nanoseconds - self._w.sc.get("start", 0)) // w_ns > (t_park - self._w.sc.get("start", 0)) // w_ns:
                    self._w.fut_cross_window += 1
            elif evs:
                yield st["d_ns"] / 1e9, evs
            else:
                yield st["d_ns"] / 1e9
            step += 1
            self.hist.append((self.now.nanoseconds, etype, step))
        return self._w.make(self.now.nanoseconds, h.get("emits", []))


class World:
    def __init__(self, sc):
        self.sc = sc
        self.problems = []
        self.ent_part = [p for p, n in enumerate(sc["parts"]) for _ in range(n)]
        self.entities = [PEntity(i, self) for i in range(len(self.ent_part))]
        self.cross_sent = 0
        self.fut_cross_window = 0
        self.retracted = 0
        lm = min(sc["links"].values()) if sc["links"] else 100_000_000
        self.w_ns = (lm if sc["window"] is None else max(1, int(sc["window"] * 1e9))) or 1

    def make(self, now, emits):
        out = []
        for e in emits:
            ev = Event(time=Instant(now + e["dt"]), event_type=f"k{e['k']}", target=self.entities[e["to"]],
                       daemon=bool(e.get("daemon", False)))
            out.append(ev)
            if e.get("cancel_after") is not None:
                self.retracted += 1
                out.append(Event.once(time=Instant(now + e["cancel_after"]), event_type="retract",
                                      fn=lambda _e, ev=ev: ev.cancel(), daemon=bool(e.get("daemon", False))))
        return out

    def sources_of(self, part: int | None = None):
        """Fresh Source objects feeding entities of partition `part` (None: all)."""
        from happysimulator import Source
        out = []
        for j, so in enumerate(self.sc.get("sources", [])):
            if part is None or self.ent_part[so["ent"]] == part:
                out.append(Source.constant(rate=1e9 / (self.w_ns * so["every_w"]), target=self.entities[so["ent"]],
                                           event_type="k0", name=f"load{j}"))
        return out

    def outage_events(self):
        """(entity index, Event) toggling the repo's _crashed window counter on a harness-owned timeline."""
        out = []
        st = self.sc.get("start", 0)
        for o in self.sc.get("outages", []):
            ent = self.entities[o["ent"]]

            def down(ev, ent=ent):
                ent._crashed = getattr(ent, "_crashed", 0) + 1

            def up(ev, ent=ent):
                ent._crashed = max(0, getattr(ent, "_crashed", 0) - 1)

            out.append((o["ent"], Event.once(time=Instant(st + o["s"]), event_type="outage.down", fn=down)))
            out.append((o["ent"], Event.once(time=Instant(st + o["e"]), event_type="outage.up", fn=up)))
        return out

    def initial(self):
        st = self.sc.get("start", 0)
        return [(i["to"], Event(time=Instant(st + i["t"]), event_type=f"k{i['k']}", target=self.entities[i["to"]],
                                daemon=bool(i.get("daemon", False))))
                for i in self.sc["initial"]]


def _validate(sc):
    n_ent = sum(sc["parts"])
    nk = sc["n_kinds"]
    if len(sc["parts"]) < 1 or any(p < 1 for p in sc["parts"]) or nk < 1:
        raise InvalidScenario("empty partition")
    ent_part = [p for p, n in enumerate(sc["parts"]) for _ in range(n)]
    for key, lat in sc["links"].items():
        a, b = key.split(">")
        if not (0 <= int(a) < len(sc["parts"]) and 0 <= int(b) < len(sc["parts"])) or a == b or lat <= 0:
            raise InvalidScenario("bad link")
    if any(k not in sc["links"] for k in sc.get("dup_links", [])):
        raise InvalidScenario("duplicate declaration of an undeclared link")
    if sc.get("decoy") not in (None, "before", "after"):
        raise InvalidScenario("bad decoy")
    lmin = min(sc["links"].values()) if sc["links"] else None
    if sc["window"] is not None and (lmin is None or sc["window"] <= 0 or sc["window"] > lmin / 1e9):
        raise InvalidScenario("window out of range")

    w_chk = (lmin if sc["window"] is None else max(1, int(sc["window"] * 1e9))) if lmin else 100_000_000

    def chk(src, k, emits):
        for e in emits:
            if not (0 <= e["to"] < n_ent) or not (k < e["k"] < nk) or e["dt"] < 0:
                raise InvalidScenario("bad emit")
            if e.get("cancel_after") is not None and not (0 <= e["cancel_after"] <= e["dt"] - 2 * w_chk):
                raise InvalidScenario("a retraction must precede the arrival by two windows")
            a, b = ent_part[src], ent_part[e["to"]]
            if a != b:
                lat = sc["links"].get(f"{a}>{b}")
                if lat is None or e["dt"] < lat:
                    raise InvalidScenario("cross emit violates declared minimum")

    for key, h in sc["handlers"].items():
        e, k = (int(x) for x in key.split(":"))
        if e >= n_ent or k >= nk:
            raise InvalidScenario("handler out of range")
        chk(e, k, h.get("emits", []))
        for st in h.get("steps", []):
            if st["d_ns"] < 0:
                raise InvalidScenario("negative delay")
            chk(e, k, st.get("emits", []))
    for i in sc["initial"]:
        if not (0 <= i["to"] < n_ent) or not (0 <= i["k"] < nk) or i["t"] < 0:
            raise InvalidScenario("bad initial")
    if not sc["initial"]:
        raise InvalidScenario("no initial events")
    if sc.get("start", 0) < 0:
        raise InvalidScenario("negative start")
    for k, d in sc.get("composite", {}).items():
        dd = d[1] if isinstance(d, list) else d
        if not (0 <= int(k) < n_ent) or dd < 0 or (isinstance(d, list) and d[0] != "server"):
            raise InvalidScenario("bad composite")
    for so in sc.get("sources", []):
        if not (0 <= so["ent"] < n_ent) or so["every_w"] < 0.25 or sc.get("end") is None:
            raise InvalidScenario("bad source (or no explicit end)")
    for o in sc.get("outages", []):
        if not (0 <= o["ent"] < n_ent) or o["s"] < 1 or o["e"] <= o["s"]:
            raise InvalidScenario("bad outage")
    if sc.get("end") is None:
        allem = [e for h in sc["handlers"].values()
                 for e in h.get("emits", []) + [x for st in h.get("steps", []) for x in st.get("emits", [])]]
        if any(e.get("daemon") for e in allem + sc["initial"]):
            raise InvalidScenario("daemon events need an explicit end_time in this model")


# --------------------------------------------------------------------------
# harness-owned executors
# --------------------------------------------------------------------------

class _Fut:
    def __init__(self, fn, args):
        self.fn, self.args = fn, args
        self._done = False
        self._res = None
        self._exc = None

    def run(self):
        if not self._done:
            try:
                self._res = self.fn(*self.args)
            except BaseException as e:  # noqa: BLE001
                self._exc = e
            self._done = True

    def result(self):
        self.run()
        if self._exc is not None:
            raise self._exc
        return self._res


class NoProgress(Exception):
    """The coordinator keeps opening windows far beyond anything the model needs."""


class SerialPool:
    """Runs submitted window tasks one after the other in a seeded order."""

    rng = random.Random(0)
    orders = 0

    def __init__(self, max_workers=None):
        pass

    def __enter__(self):
        return self

    def __exit__(self, *a):
        return False

    submitted = 0

    def submit(self, fn, *args):
        SerialPool.submitted += 1
        if SerialPool.submitted > 60_000:
            raise NoProgress()
        return _Fut(fn, args)


def serial_as_completed(fs):
    order = list(fs)
    SerialPool.rng.shuffle(order)
    SerialPool.orders += 1
    for f in order:
        f.run()
        yield f


class Baton:
    """Real threads, one runnable at a time; the baton is handed to a seeded
    choice (by task index, never by thread id) at every EventHeap.pop made by a
    worker thread."""

    def __init__(self, rng):
        self.rng = rng
        self.cv = threading.Condition()
        self.current = None          # task index holding the baton
        self.waiting: list[int] = []  # task indices ready to run
        self.idx_of: dict[int, int] = {}
        self.switches = 0

    def _hand_over(self):
        if self.waiting:
            nxt = self.rng.choice(sorted(self.waiting))
            self.waiting.remove(nxt)
            self.current = nxt
        else:
            self.current = None
        self.cv.notify_all()

    def yield_point(self):
        me = self.idx_of.get(threading.get_ident())
        if me is None:
            return  # not a managed worker (main thread)
        with self.cv:
            if self.current != me:
                return
            self.waiting.append(me)
            self._hand_over()
            if self.current != me:
                self.switches += 1
            while self.current != me:
                self.cv.wait(timeout=30)

    def run_all(self, futs):
        """Run all tasks as threads under the baton; returns when all finished."""
        threads = []
        started = threading.Semaphore(0)

        def body(i, f):
            with self.cv:
                self.idx_of[threading.get_ident()] = i
                self.waiting.append(i)
                started.release()
                while self.current != i:
                    self.cv.wait(timeout=30)
            try:
                f.run()
            finally:
                with self.cv:
                    self.idx_of.pop(threading.get_ident(), None)
                    self._hand_over()

        for i, f in enumerate(futs):
            t = threading.Thread(target=body, args=(i, f), daemon=True)
            threads.append(t)
            t.start()
        for _ in futs:
            started.acquire()
        with self.cv:
            self._hand_over()
        for t in threads:
            t.join(timeout=60)
            if t.is_alive():
                raise RuntimeError("baton worker did not finish")


_BATON: Baton | None = None


class BatonPool(SerialPool):
    pass


def baton_as_completed(fs):
    fs = list(fs)
    _BATON.run_all(fs)
    yield from fs


class _Patch:
    def __init__(self, mode, seed):
        self.mode, self.seed = mode, seed

    def __enter__(self):
        global _BATON
        self.saved = (_coord.ThreadPoolExecutor, _coord.as_completed, _psim.ThreadPoolExecutor, _psim.as_completed,
                      EventHeap.pop)
        SerialPool.rng = random.Random(self.seed)
        SerialPool.orders = 0
        SerialPool.submitted = 0
        if self.mode == "threads":
            _BATON = Baton(random.Random(self.seed))
            pool, ac = BatonPool, baton_as_completed
            orig_pop = EventHeap.pop
            baton = _BATON

            def pop(heap):
                baton.yield_point()
                return orig_pop(heap)

            EventHeap.pop = pop
        else:
            pool, ac = SerialPool, serial_as_completed
        _coord.ThreadPoolExecutor = _psim.ThreadPoolExecutor = pool
        _coord.as_completed = _psim.as_completed = ac
        return self

    def __exit__(self, *a):
        global _BATON
        (_coord.ThreadPoolExecutor, _coord.as_completed, _psim.ThreadPoolExecutor, _psim.as_completed,
         EventHeap.pop) = self.saved
        _BATON = None
        return False


class _TimeTravel(logging.Handler):
    def __init__(self):
        super().__init__(level=logging.WARNING)
        self.hits = []

    def emit(self, record):
        msg = record.getMessage()
        if "Time travel" in msg:
            self.hits.append(msg[:200])


# --------------------------------------------------------------------------
# run
# --------------------------------------------------------------------------

def _time_kwargs(sc):
    """start/end arguments shared by both runs, and the effective end instant in ns."""
    st = sc.get("start", 0)
    end = sc.get("end")
    kw = {"start_time": Instant(st)} if st else {}
    if end is None:
        return kw, None
    if sc.get("use_duration"):
        d = end / 1e9
        kw["duration"] = d
        return kw, (Instant(st) + d).nanoseconds
    kw["end_time"] = Instant(st + end)
    return kw, st + end


def run_sequential(sc):
    w = World(sc)
    kw, eff_end = _time_kwargs(sc)
    sim = Simulation(entities=w.entities, sources=w.sources_of() or None, **kw)
    for _, ev in w.initial():
        sim.schedule(ev)
    for _, ev in w.outage_events():
        sim.schedule(ev)
    # every processed event (also those dropped because the target is down) - to recognise exact ties with outage edges
    st = sc.get("start", 0)
    edges = {}
    for o in sc.get("outages", []):
        edges.setdefault(o["ent"], set()).update((st + o["s"], st + o["e"]))
    w.boundary_tie = False
    if edges:
        def tap(ev):
            idx = getattr(ev.target, "idx", None)
            if idx in edges and ev.time.nanoseconds in edges[idx]:
                w.boundary_tie = True
        sim.control.on_event(tap)
    sim.run()
    w.eff_end = eff_end
    return w


def run_parallel(sc):
    w = World(sc)
    end = sc.get("end")
    names = [f"P{i}" for i in range(len(sc["parts"]))]

    def topology(world):
        parts = []
        idx = 0
        for p, n in enumerate(sc["parts"]):
            parts.append(SimulationPartition(name=names[p], entities=world.entities[idx: idx + n],
                                             sources=world.sources_of(p),
                                             trace_recorder=InMemoryTraceRecorder() if p in sc.get("traced_parts", []) else None))
            idx += n
        links = []
        for key in sorted(sc["links"]) + sorted(sc.get("dup_links", [])):
            a, b = (int(x) for x in key.split(">"))
            links.append(PartitionLink(source_partition=names[a], dest_partition=names[b], min_latency=sc["links"][key] / 1e9))
        return parts, links

    parts, links = topology(w)
    lg = logging.getLogger("happysimulator.core.simulation")
    tt = _TimeTravel()
    old_level = lg.level
    lg.addHandler(tt)
    lg.setLevel(logging.WARNING)
    import warnings
    try:
        with _Patch(sc.get("mode", "serial"), sc.get("sched_seed", 0)) as patch, warnings.catch_warnings():
            warnings.simplefilter("ignore")
            kw, _eff = _time_kwargs(sc)
            def build(world_parts, world_links):
                return ParallelSimulation(partitions=world_parts, links=world_links or None,
                                          window_size=sc["window"] if world_links else None,
                                          max_workers=sc.get("workers"), **kw)

            # a second, never-run model with the same partition names (its own entities): constructing it must not matter
            if sc.get("decoy") == "before":
                build(*topology(World(sc)))
            ps = build(parts, links)
            if sc.get("decoy") == "after":
                build(*topology(World(sc)))
            for to, ev in w.initial():
                ps.schedule(ev, partition=names[w.ent_part[to]])
            for to, ev in w.outage_events():
                ps.schedule(ev, partition=names[w.ent_part[to]])
            summary = ps.run()
            switches = _BATON.switches if _BATON is not None else SerialPool.orders
    finally:
        lg.removeHandler(tt)
        lg.setLevel(old_level)
    return w, summary, tt.hits, switches


def run(sc):
    _validate(sc)
    seq = run_sequential(sc)
    try:
        par, summary, tt_hits, switches = run_parallel(sc)
    except NoProgress:
        return result(sig="C05/coordinator-never-terminates", klass=sc.get("mode", "serial"),
                      msg="the window loop submitted more than 60000 partition windows for a model that needs a few hundred "
                          "(window end stopped advancing)")
    except Exception as exc:
        s = repo_exception_sig(exc)
        if s is None:
            raise
        return result(sig=f"C05/{s}", msg=repr(exc))
    end = seq.eff_end
    sig = msg = None
    if seq.boundary_tie:
        # a delivery coincides exactly with an outage edge of its target: whether it is handled depends on the
        # same-instant order, which the statement leaves open between partitions - not judged
        return result(sig=None, digest="tie", nontrivial=False, counters={"skipped.exact_tie_with_outage_edge": 1},
                      klass="skipped-tie")
    if par.problems:
        sig, msg = par.problems[0]
    if sig is None and tt_hits:
        sig, msg = "cross-event-discarded-as-past", f"{len(tt_hits)} event(s) skipped by a partition as being in its past: {tt_hits[0]}"
    n_cross_recv = 0
    if sig is None:
        for es, ep in zip(seq.entities, par.entities):
            hs = sorted(x for x in es.hist if end is None or x[0] <= end)
            hp_raw = [x for x in ep.hist if end is None or x[0] <= end]
            if any(hp_raw[i][0] > hp_raw[i + 1][0] for i in range(len(hp_raw) - 1)):
                sig, msg = "time-order", f"{ep.name}: deliveries out of time order under parallel execution"
                break
            hp = sorted(hp_raw)
            if hs != hp:
                missing = _msub(hs, hp)
                extra = _msub(hp, hs)
                if missing and not extra:
                    sig = "delivery-lost"
                elif extra and not missing:
                    sig = "delivery-duplicated-or-extra"
                else:
                    sig = "delivery-differs"
                msg = f"{ep.name}: sequential-only {missing[:3]} parallel-only {extra[:3]}"
                break
    total_windows = getattr(summary, "total_windows", 0)
    cross = getattr(summary, "total_cross_partition_events", 0)
    n_deliv = sum(len(e.hist) for e in seq.entities)
    w_ns = int((sc["window"] or (min(sc["links"].values()) / 1e9 if sc["links"] else 0.1)) * 1e9) or 1
    all_times = [x[0] for e in seq.entities for x in e.hist]
    lmin = min(sc["links"].values()) if sc["links"] else 0
    counters = {
        "probe.cross_event_delivered": int(cross > 0),
        "probe.event_on_window_boundary": int(any((t - sc.get("start", 0)) % w_ns == 0 and t > sc.get("start", 0) for t in all_times)),
        "probe.idle_partition_then_cross": int(_idle_then_cross(sc, seq, w_ns)),
        "probe.window_eq_min_latency": int(bool(sc["links"]) and (sc["window"] is None or int(sc["window"] * 1e9) == lmin)),
        "probe.pingpong": int(any(f"{k.split('>')[1]}>{k.split('>')[0]}" in sc["links"] for k in sc["links"]) and cross >= 2),
        "probe.independent_partitions": int(not sc["links"]),
        "probe.threads_mode": int(sc.get("mode") == "threads"),
        "probe.daemon_events_with_end_time": int(end is not None and any(i.get("daemon") for i in sc["initial"])),
        "probe.nonzero_start_time": int(bool(sc.get("start"))),
        "probe.end_given_as_duration": int(bool(sc.get("use_duration")) and end is not None),
        "probe.outage_dropped_a_delivery": int(bool(sc.get("outages")) and _outage_effective(sc, seq)),
        "probe.future_parked_across_windows": int(seq.fut_cross_window > 0),
        "probe.cross_event_retracted_by_sender": int(seq.retracted > 0 and cross > 0),
        "probe.composite_entity_with_undeclared_inner_part": int(bool(sc.get("composite")) and cross > 0),
        "probe.library_server_inside_linked_partition": int(any(isinstance(v, list) for v in sc.get("composite", {}).values()) and cross > 0),
        "probe.source_inside_partition": int(bool(sc.get("sources"))),
        "probe.partition_with_trace_recorder": int(bool(sc.get("traced_parts")) and cross > 0),
        "probe.link_declared_twice": int(bool(sc.get("dup_links")) and cross > 0),
        "probe.decoy_model_constructed": int(bool(sc.get("decoy")) and cross > 0),
        "sched.task_orders_or_baton_switches": switches,
        "windows": total_windows,
        "cross_events": cross,
    }
    h = hashlib.blake2b(repr([sorted(e.hist) for e in seq.entities]).encode(), digest_size=12).hexdigest()
    state = repr((len(sc["parts"]), round(w_ns / lmin, 2) if lmin else 0, min(total_windows // 10, 6), min(cross, 6),
                  counters["probe.idle_partition_then_cross"], sc.get("mode")))
    return result(sig=f"C05/{sig}" if sig else None, msg=msg or "", digest=h,
                  nontrivial=cross >= 1 and n_deliv >= 6, counters=counters,
                  sim_s=(max(all_times) / 1e9) if all_times else 0.0, deliveries=n_deliv,
                  klass=("independent" if not sc["links"] else sc.get("mode", "serial")), state=state)


def _outage_effective(sc, seq) -> bool:
    """Did some entity with an outage see no delivery inside the outage although it had traffic around it?"""
    st = sc.get("start", 0)
    for o in sc.get("outages", []):
        ts = [x[0] for x in seq.entities[o["ent"]].hist]
        if ts and min(ts) < st + o["s"] and not any(st + o["s"] <= t < st + o["e"] for t in ts):
            return True
    return False


def _msub(a, b):
    from collections import Counter

    c = Counter(a)
    c.subtract(Counter(b))
    return sorted(x for x, n in c.items() for _ in range(max(n, 0)))


def _idle_then_cross(sc, seq, w_ns) -> bool:
    """Some entity saw a gap of >= 3 windows between consecutive deliveries."""
    for e in seq.entities:
        ts = sorted(x[0] for x in e.hist)
        for a, b in zip(ts, ts[1:]):
            if b - a >= 3 * w_ns:
                return True
    return False
