"""C17 — replication: acknowledged writes are where the mode promises, replicas converge.

Real PrimaryNode/BackupNode, ChainNode (build_chain, CRAQ on/off), LeaderNode
(+ resolvers, MerkleTree) and ReplicatedStore run on the real engine over real
Network/NetworkLink objects whose per-message delays are keyed (KeyedLatency),
so replication messages for one key overtake each other.  Stores are a thin
recording subclass of the repo KVStore.  DESIGN.md section 5 "C17".

Oracles
  * in the delivery in which a client's reply future resolves:
      SYNC      -> the write is reflected at every backup
      SEMI_SYNC -> at >= 1 backup
      chain     -> at every node of the chain
      chain read-> the returned value was applied at the tail before the reply
  * at quiescence (writes stopped, every non-daemon event drained, for
    multi-leader additionally anti-entropy sweeps run): all replicas hold
    identical key->value maps.
"""
from __future__ import annotations

import random

from simkit import repo

repo.activate()

from happysimulator.core.event import Event  # noqa: E402
from happysimulator.core.simulation import Simulation  # noqa: E402
from happysimulator.core.temporal import Instant  # noqa: E402

from simkit import c17_harness as hz  # noqa: E402
from simkit.chaosnet import FaultDriver, gen_faults, gen_latency_profile  # noqa: E402
from simkit.rng import seed_globals  # noqa: E402
from simkit.world import InvalidScenario, Monitor, Violation, result, run_sim  # noqa: E402

PROPERTY = "C17"
RUNS = {"quick": 5000, "thorough": 2_000_000}
WALL = {"quick": 50, "thorough": 1500}
BATCH = {"quick": 25, "thorough": 400}
SELFTEST_RUNS = 12
SHRINK_BUDGET_S = {"quick": 20.0, "thorough": 60.0}
RULE = (
    "each case is one replication scheme (primary-backup ASYNC/SEMI_SYNC/SYNC with 1-4 backups; chain of 2-5 nodes with "
    "CRAQ on/off and reads at every node; 2-4 multi-leader nodes with concurrent writers on different leaders, one of four "
    "resolvers and periodic anti-entropy driven as a daemon chain from t=0 (workload immediately, or after >= 1 idle tick and in bursts "
    "separated by idle ticks) or by explicit post-hoc rounds; ReplicatedStore with 2-5 replicas and concurrent clients) with 2-60 writes of "
    "unique values over a small key space, per-node store latencies, and a scenario class that fixes the delay/fault model "
    "(reorder: keyed jittered/straggler delays; fifo: constant per-link delay; distinct: every key written once; faulty: "
    "loss and partition windows, only ack/read relations judged; craq-avoid; rs-put / rs-delete); non-trivial = at least one "
    "oracle evaluation happened (ack, read or convergence) AND (some key was written at least twice or a replication message "
    "overtook another on its link) AND, in faulty classes, at least one message was really dropped; distinct = distinct "
    "delivery digests"
)
STATE_MEASURE = ("distinct (scheme, variant, #replicas, class, bucket of same-key overtakes, bucket of acks judged, bucket of reads "
                 "judged, diverged?, bucket of anti-entropy sweeps needed) tuples")
REAL = [
    "happysimulator.components.replication.primary_backup.PrimaryNode/BackupNode",
    "happysimulator.components.replication.chain_replication.ChainNode/build_chain",
    "happysimulator.components.replication.multi_leader.LeaderNode",
    "happysimulator.components.replication.conflict_resolver.LastWriterWins/VectorClockMerge/CustomResolver",
    "happysimulator.sketching.merkle_tree.MerkleTree", "happysimulator.core.logical_clocks.VectorClock",
    "happysimulator.components.datastore.replicated_store.ReplicatedStore",
    "happysimulator.components.datastore.kv_store.KVStore (behaviour inherited by the recording subclass)",
    "happysimulator.components.network.network.Network, link.NetworkLink (loss, partitions)",
    "happysimulator.core.sim_future.SimFuture/any_of/all_of", "happysimulator.core.simulation.Simulation (instrumented loop)",
]
STUBS = [
    "RecStore: subclass of KVStore that appends (stamp,key,value) after the inherited put()/delete() finished (harness)",
    "ReplyFuture: SimFuture subclass whose resolve() also notifies the oracle (harness; nobody parks on it)",
    "KeyedLatency delay distributions and the FaultDriver (kit seams)", "clients: pre-scheduled Write/Read events; RSClient "
    "generator processes for ReplicatedStore; Conductor tick entity that keeps multi-leader runs alive while daemon anti-entropy runs",
    "symmetric merge functions passed to VectorClockMerge/CustomResolver (harness)",
]
ASSUMPTIONS = [
    "'applied' at ack time is read as 'reflected': the replica's put log for the key contains the write's value or the value of a "
    "write that the primary/head sequenced after it (weaker than literal 'applied', so a repair that skips superseded writes is "
    "not a false alarm; with today's code both readings coincide except when a later write overtook this one)",
    "a read that returns None (key absent) is never judged; a returned value must have been applied at the tail no later than the "
    "instant the reply future resolves ('committed at the tail' = applied at the tail, also for values the tail later overwrote)",
    "without CRAQ the documented contract sends reads to the TAIL; reads at other nodes are issued but only counted "
    "(obs.noncraq_nontail_read_uncommitted), not judged",
    "ASYNC acknowledgements promise nothing about backups; liveness (every write is eventually acknowledged) is not part of the "
    "statement and is only counted (obs.unacked_writes_noloss)",
    "multi-leader 'anti-entropy having run' is read generously: after the last write's replication traffic has drained, "
    "anti-entropy continues until every ordered pair of leaders has completed >= min_sweeps request exchanges AND the stores are "
    "equal, or until max_sweeps (10) such sweeps; only divergence that survives max_sweeps is a violation; slower-than-one-sweep "
    "convergence is reported as probe.ml_needed_extra_sweeps; anti-entropy is armed through the public API in three styles (self-re-arming "
    "daemon chain with the workload starting right away; the same chain with the workload starting after >= 1 tick and idle gaps of "
    "several ticks between write bursts; explicit AntiEntropy events scheduled after the writes); if ~330 intervals after the last "
    "write some ordered pair still has not exchanged min_sweeps requests the periodic anti-entropy is not running: replicas that "
    "differ then are a violation (anti-entropy-stalled), replicas that agree are only counted (obs.ae_pairs_never_covered)",
    "resolvers given to multi-leader are deterministic and symmetric (LWW, VectorClockMerge with LWW fallback or a symmetric merge "
    "function, CustomResolver with a symmetric function); an asymmetric user function could legitimately diverge",
    "KVStore capacity is unlimited (FIFO eviction under reordering is not explored)",
    "ReplicatedStore is built with the constructor's default read_timeout/write_timeout in half of the runs and with budgets swept "
    "down to the order of the replica latencies in the other half; a put that returned True must be on every replica at quiescence "
    "unless a later write superseded it, whatever the budgets (the class writes every replica today)",
    "ReplicatedStore deletes are treated as writes of 'absent' (class rs-delete); puts-only runs are class rs-put",
    "in the 'alphabet' share of the runs (class suffix /aba) every key has two values written in A-B-A patterns incl. re-writes of "
    "the held value; the ack/read oracles then attribute a value to its FIRST occurrence (weaker, never stricter), and the "
    "quiescence oracle needs no attribution: every replica holds, per key, the value of the last write in the primary's/head's "
    "apply order (multi-leader: all replicas equal)",
    "loss/partition classes judge only the ack-implies-applied and read-committed relations, never convergence",
]
EXPECTED_PROBES = [
    "probe.same_key_overtake", "probe.sync_ack_judged", "probe.semisync_ack_partial", "probe.chain_ack_judged",
    "probe.craq_read_forwarded_dirty", "probe.craq_read_served_clean_nontail", "probe.read_overlapped_write",
    "probe.ml_conflict_detected", "probe.ml_ae_repaired", "probe.ml_handlers_overlapped_same_key",
    "probe.ml_version_regressed", "probe.ack_after_drop", "probe.write_never_acked_under_fault",
    "fault.partition", "fault.loss", "fault.msgs_dropped_by_loss", "fault.msgs_dropped_by_partition",
    "probe.converged_despite_overtake", "probe.rs_concurrent_same_key",
    "probe.stale_write_skipped", "probe.ack_reflected_by_later_write",
    "probe.craq_read_forwarded_after_recheck", "probe.craq_commit_left_key_dirty",
    "probe.ml_first_tick_found_leader_empty", "probe.ml_idle_ticks_between_bursts", "probe.ml_posthoc_rounds",
    "probe.aba_value_restored", "probe.aba_same_value_rewritten", "probe.aba_restore_overlapped_put",
    "probe.rs_write_budget_below_replica_pass", "probe.rs_read_budget_below_replica_pass",
]
SHRINK_SKIP = ("scheme", "klass", "mode", "resolver", "rcl", "wcl", "ae_style", "valmode")

MAX_SWEEPS = 10


# --------------------------------------------------------------------------------------------
# generator
# --------------------------------------------------------------------------------------------

def _dmax(profile: dict, per_link: dict | None = None) -> float:
    def one(p):
        return (p.get("base", 0.001) + p.get("jitter", 0.0) + 1.5 * p.get("straggler", 0.0) * (1 if p.get("straggler_p") else 0)) \
            * p.get("slow_mult", 1.0)
    m = one(profile)
    for ov in (per_link or {}).values():
        q = dict(profile)
        q.update(ov)
        m = max(m, one(q))
    return m


def _reorder_profile(rng, scale):
    while True:
        p = gen_latency_profile(rng, scale)
        if p.get("jitter", 0.0) > 0:
            return p


def _lat_arrays(rng, n_nodes, scale):
    wchoices = [0.0, scale * 0.05, scale * 0.3, scale, scale * 3]
    rchoices = [0.0, scale * 0.05, scale * 0.5, scale * 2]
    if rng.random() < 0.5:
        w = [rng.choice(wchoices)] * n_nodes
        r = [rng.choice(rchoices)] * n_nodes
    else:
        w = [rng.choice(wchoices) for _ in range(n_nodes)]
        r = [rng.choice(rchoices) for _ in range(n_nodes)]
    return [round(x, 6) for x in w], [round(x, 6) for x in r]


def _write_times(rng, n_writes, scale, min_gap=0.0):
    t = round(rng.uniform(0.0, scale), 6)
    out = []
    for _ in range(n_writes):
        out.append(round(t, 6))
        t += min_gap + rng.choice([0.0, 0.0, scale * 0.1, scale * 0.5, scale * 2.0, scale * 6.0]) * rng.random()
    return out


def _node_names(scheme, n):
    if scheme == "pb":
        return ["p"] + [f"b{i}" for i in range(1, n + 1)]
    if scheme == "chain":
        return [f"c{i}" for i in range(n)]
    return [f"l{i}" for i in range(n)]


def _per_link_const(rng, names, scale):
    out = {}
    for a in names:
        for b in names:
            if a != b and rng.random() < 0.7:
                out[f"{a}->{b}"] = {"base": round(scale * rng.choice([0.2, 0.5, 1.0, 2.0, 5.0]), 6), "jitter": 0.0}
    return out


def gen(rng: random.Random, tier: str) -> dict:
    scheme = rng.choices(["pb", "chain", "ml", "rs"], weights=[34, 36, 22, 8])[0]
    scale = rng.choice([0.002, 0.01, 0.05])
    sc = {"scheme": scheme, "seed": rng.getrandbits(48), "net_seed": rng.getrandbits(48), "scale": scale}
    n_writes = rng.choice([2, 3, 4, 6, 8, 12, 16, 24, 32, 45, 60])
    if scheme == "rs":
        return _gen_rs(rng, sc, n_writes, scale)

    if scheme == "pb":
        sc["n"] = rng.randint(1, 4)
        sc["mode"] = rng.choice(["ASYNC", "SEMI_SYNC", "SEMI_SYNC", "SYNC", "SYNC"])
        klass = rng.choices(["reorder", "fifo", "distinct", "faulty"], weights=[55, 10, 10, 25])[0]
        n_nodes = sc["n"] + 1
    elif scheme == "chain":
        sc["n"] = rng.randint(2, 5)
        sc["craq"] = rng.random() < 0.6
        opts, w = ["reorder", "fifo", "distinct", "faulty"], [45, 10, 8, 20]
        if sc["craq"]:
            opts.append("craq-avoid")
            w.append(5)
        klass = rng.choices(opts, weights=w)[0]
        n_nodes = sc["n"]
    else:
        sc["n"] = rng.randint(2, 4)
        sc["resolver"] = rng.choice(["lww", "lww", "vcm", "vcm_fn", "vcm_union", "custom"])
        klass = rng.choices(["reorder", "fifo"], weights=[75, 25])[0]
        n_nodes = sc["n"]
    names = _node_names(scheme, sc["n"])
    if klass in ("fifo",):
        sc["profile"] = {"base": scale, "jitter": 0.0}
        sc["per_link"] = _per_link_const(rng, names, scale)
    elif klass == "faulty":
        sc["profile"] = gen_latency_profile(rng, scale)
        sc["per_link"] = {}
    else:
        sc["profile"] = _reorder_profile(rng, scale)
        sc["per_link"] = {}
        if rng.random() < 0.3:  # one slow link
            a, b = rng.sample(names, 2)
            sc["per_link"][f"{a}->{b}"] = {"slow_mult": rng.choice([3.0, 10.0])}
    sc["wlat"], sc["rlat"] = _lat_arrays(rng, n_nodes, scale)
    dmax = _dmax(sc["profile"], sc["per_link"])

    # writes
    if klass == "craq-avoid":
        sc["rlat"] = [0.0] * n_nodes
        min_gap = 2.5 * n_nodes * (dmax + max(sc["wlat"])) + 1e-4
        n_writes = min(n_writes, 16)
        times = _write_times(rng, n_writes, scale, min_gap=min_gap)
    else:
        times = _write_times(rng, n_writes, scale)
    nkeys = rng.choice([1, 1, 2, 3, 5])
    # value alphabet: unique values by default (attribution for the ack/read oracles); in a share of the runs every key
    # has only two values written in A-B-A patterns, including re-writes of the value the key already holds
    aba = klass not in ("distinct", "craq-avoid") and rng.random() < 0.22
    if aba:
        nkeys = rng.choice([1, 1, 2])
        sc["valmode"] = "alphabet"
    last_val: dict = {}
    ops = []
    for i, t in enumerate(times):
        key = f"d{i}" if klass == "distinct" else f"k{rng.randrange(nkeys)}"
        node = 0
        if scheme == "ml":
            node = rng.randrange(sc["n"])
            if rng.random() < 0.35 and ops:  # concurrent writers on different leaders: same instant / same key as the previous write
                t = ops[-1]["t"] if rng.random() < 0.5 else t
                key = ops[-1]["k"] if klass != "distinct" else key
                node = (ops[-1]["node"] + 1 + rng.randrange(sc["n"] - 1)) % sc["n"]
        val = f"v{i}"
        if aba:
            prev = last_val.get(key)
            letter = "a" if prev is None else (prev if rng.random() < 0.3 else ("b" if prev == "a" else "a"))
            last_val[key] = letter
            val = f"{key}:{letter}"
        ops.append({"op": "w", "t": t, "node": node, "k": key, "v": val})
    span = (times[-1] if times else 0.0)
    # reads (chain only)
    if scheme == "chain":
        mode = "any"  # the CRAQ read defects are fixed: reads at every node in every class again
        if rng.random() < 0.12:
            mode = rng.choice(["tail", "none"])
        sc["reads"] = mode
        if mode != "none":
            n_reads = rng.randint(1, max(2, int(n_writes * rng.choice([0.5, 1.0, 2.0]))))
            wkeys = [o["k"] for o in ops]
            n_w = len(ops)
            for _ in range(n_reads):
                j = rng.randrange(n_w)
                # read shortly after some write to that key, somewhere along its way down the chain
                t = ops[j]["t"] + rng.random() * rng.choice([0.3, 1.0, 2.0, 4.0]) * sc["n"] * (dmax + max(sc["wlat"]) + 1e-5)
                node = sc["n"] - 1 if mode == "tail" else rng.randrange(sc["n"])
                ops.append({"op": "r", "t": round(t, 6), "node": node, "k": wkeys[j]})
    ops.sort(key=lambda o: (o["t"], 0 if o["op"] == "w" else 1))
    sc["ops"] = ops
    sc["klass"] = f"{scheme}-{klass}" + ("/aba" if aba else "")
    sc["faults"] = []
    if klass == "faulty":
        horizon = span + 4 * n_nodes * (dmax + max(sc["wlat"])) + scale
        fs = gen_faults(rng, n_nodes, horizon, kinds=("partition", "loss", "loss"), max_faults=4, min_len=scale * 0.5)
        while not fs:
            fs = gen_faults(rng, n_nodes, horizon, kinds=("partition", "loss", "loss"), max_faults=4, min_len=scale * 0.5)
        sc["faults"] = fs
    if scheme == "ml":
        # one anti-entropy handler may re-put every key: keep the interval above the duration of a full exchange
        n_keys = len({o["k"] for o in ops})
        sc["ae_interval"] = round(rng.choice([3.0, 6.0, 20.0]) * (dmax + (n_keys + 1) * max(sc["wlat"]) + scale * 0.1), 6)
        # phases: 0.0 -> the node's own get_anti_entropy_event() (all timers aligned); else an explicit first AntiEntropy event
        if rng.random() < 0.5:
            sc["ae_phase"] = [0.0] * sc["n"]
        else:
            sc["ae_phase"] = [round(rng.random() * sc["ae_interval"], 6) for _ in range(sc["n"])]
        sc["min_sweeps"] = rng.choice([1, 2, 2, 3])
        # how anti-entropy is driven:
        #   chain      - the self-re-arming daemon chain, armed before the run (first tick at ae_interval / ae_phase),
        #                writes start right away (the first tick usually finds data);
        #   chain-idle - same chain, but the workload starts only after >= 1 tick (leaders are empty when their timer
        #                first fires, as in examples/distributed/multi_leader_replication.py) and the writes come in
        #                bursts separated by idle gaps of several ticks;
        #   posthoc    - no chain armed up front; explicit AntiEntropy events are scheduled for every leader after the
        #                last write (as tests/unit/components/replication/test_multi_leader.py does).
        style = rng.choices(["chain", "chain-idle", "posthoc"], weights=[40, 40, 20])[0]
        sc["ae_style"] = style
        iv = sc["ae_interval"]
        if style == "chain-idle":
            n_bursts = rng.randint(1, 3)
            cuts = sorted(rng.sample(range(1, len(ops)), min(n_bursts - 1, len(ops) - 1))) if len(ops) > 1 else []
            base_prev = 0.0
            start = [0] + cuts
            for bi, lo in enumerate(start):
                hi = start[bi + 1] if bi + 1 < len(start) else len(ops)
                t0 = ops[lo]["t"]
                # this burst begins (1..4 ticks + a fraction) after the previous one ended
                begin = base_prev + iv * (rng.randint(1, 4) + rng.random())
                for o in ops[lo:hi]:
                    o["t"] = round(begin + (o["t"] - t0), 6)
                base_prev = ops[hi - 1]["t"]
            ops.sort(key=lambda o: o["t"])
        elif style == "posthoc":
            last = max(o["t"] for o in ops)
            sc["ae_phase"] = [round(last + dmax + 2 * max(sc["wlat"]) + rng.random() * iv, 6) for _ in range(sc["n"])]
        sc["klass"] = f"ml-{klass}/{style}" + ("/aba" if aba else "")
    return sc


def _gen_rs(rng, sc, n_writes, scale):
    sc["n"] = rng.randint(2, 5)
    klass = rng.choice(["rs-put", "rs-put", "rs-delete"])
    sc["wlat"], sc["rlat"] = _lat_arrays(rng, sc["n"], scale)
    sc["wcl"] = rng.choice(["ONE", "QUORUM", "ALL"])
    sc["rcl"] = rng.choice(["ONE", "QUORUM", "ALL"])
    if klass == "rs-delete":
        sc["dlat"] = [round(rng.choice([0.0, scale * 0.05, scale * 0.3, scale, scale * 3]), 6) for _ in range(sc["n"])]
    # operation time budgets: the constructor defaults (2 s / 1 s) in half of the runs, else swept down to the order of
    # the replica latencies (below, around and above the cumulative latency of one pass over the replicas)
    if rng.random() < 0.5:
        sc["wto"] = round(max(1e-6, rng.choice([0.3, 0.7, 1.0, 1.5, 3.0]) * sum(sc["wlat"]) / sc["n"] * rng.choice([1, 1, sc["n"]])), 9)
        sc["rto"] = round(max(1e-6, rng.choice([0.3, 0.7, 1.0, 1.5, 3.0]) * sum(sc["rlat"]) / sc["n"] * rng.choice([1, 1, sc["n"]])), 9)
    nkeys = rng.choice([1, 2, 3])
    step = (sum(sc["wlat"]) + scale * 0.1)
    t = 0.0
    ops = []
    for i in range(n_writes):
        kind = "w"
        if i == 0:
            kind = "w"
        elif klass == "rs-delete" and rng.random() < 0.35:
            kind = "d"
        elif rng.random() < 0.2:
            kind = "r"
        ops.append({"op": kind, "t": round(t, 6), "k": f"k{rng.randrange(nkeys)}", "v": f"v{i}"})
        t += step * rng.choice([0.0, 0.1, 0.5, 1.0, 2.0]) * rng.random()
    sc["ops"] = ops
    sc["klass"] = klass
    sc["profile"] = {}
    sc["faults"] = []
    return sc


# --------------------------------------------------------------------------------------------
# validation
# --------------------------------------------------------------------------------------------

_MIN_N = {"pb": 1, "chain": 2, "ml": 2, "rs": 1}
_MAX_N = {"pb": 4, "chain": 5, "ml": 4, "rs": 5}


def _validate(sc):
    scheme = sc.get("scheme")
    if scheme not in _MIN_N:
        raise InvalidScenario("scheme")
    n = sc.get("n", 0)
    if not isinstance(n, int) or not _MIN_N[scheme] <= n <= _MAX_N[scheme]:
        raise InvalidScenario("n out of range")
    ops = sc.get("ops")
    if not isinstance(ops, list) or not ops:
        raise InvalidScenario("no ops")
    vals = set()
    nn = n + 1 if scheme == "pb" else n
    for o in ops:
        if o.get("op") not in ("w", "r", "d") or "k" not in o or not isinstance(o.get("t"), (int, float)) or o["t"] < 0:
            raise InvalidScenario("bad op")
        if o["op"] == "w":
            if "v" not in o or (o["v"] in vals and sc.get("valmode") != "alphabet"):
                raise InvalidScenario("values must be unique")
            if sc.get("valmode") == "alphabet" and not str(o["v"]).startswith(f"{o['k']}:"):
                raise InvalidScenario("alphabet values are per key")
            vals.add(o["v"])
        if scheme != "rs":
            if not isinstance(o.get("node"), int) or not 0 <= o["node"] < nn:
                raise InvalidScenario("node out of range")
            if o["op"] == "d":
                raise InvalidScenario("delete only for rs")
            if scheme in ("pb", "chain") and o["op"] == "w" and o["node"] != 0:
                raise InvalidScenario("writes go to the primary/head")
            if scheme != "chain" and o["op"] == "r":
                raise InvalidScenario("reads only for chain")
    if not any(o["op"] in ("w", "d") for o in ops):
        raise InvalidScenario("no writes")
    if scheme != "rs":
        for f in ("seed", "net_seed", "profile", "wlat", "rlat"):
            if f not in sc:
                raise InvalidScenario(f"missing {f}")
        if not isinstance(sc["profile"], dict) or not sc["wlat"] or not sc["rlat"]:
            raise InvalidScenario("profile/latencies")
        if any((not isinstance(x, (int, float))) or x < 0 for x in list(sc["wlat"]) + list(sc["rlat"])):
            raise InvalidScenario("latencies")
        for p in [sc["profile"], *(sc.get("per_link") or {}).values()]:
            if any((not isinstance(v, (int, float))) or v < 0 for v in p.values()):
                raise InvalidScenario("profile values")
    if scheme == "pb" and sc.get("mode") not in ("ASYNC", "SEMI_SYNC", "SYNC"):
        raise InvalidScenario("mode")
    if scheme == "ml":
        if sc.get("resolver") not in ("lww", "vcm", "vcm_fn", "vcm_union", "custom"):
            raise InvalidScenario("resolver")
        if not isinstance(sc.get("ae_interval"), (int, float)) or sc["ae_interval"] < 1e-5:
            raise InvalidScenario("ae_interval")
        if sc.get("ae_style", "chain") not in ("chain", "chain-idle", "posthoc"):
            raise InvalidScenario("ae_style")
        if not isinstance(sc.get("min_sweeps", 1), int) or not 1 <= sc.get("min_sweeps", 1) <= MAX_SWEEPS:
            raise InvalidScenario("min_sweeps")
    if scheme == "rs":
        if sc.get("wcl") not in ("ONE", "QUORUM", "ALL") or sc.get("rcl") not in ("ONE", "QUORUM", "ALL"):
            raise InvalidScenario("consistency level")
        if not sc.get("wlat") or not sc.get("rlat"):
            raise InvalidScenario("latencies")
        if any((not isinstance(sc.get(f, 1.0), (int, float))) or sc.get(f, 1.0) <= 0 for f in ("wto", "rto")):
            raise InvalidScenario("timeouts")
        if any((not isinstance(x, (int, float))) or x < 0 for x in list(sc["wlat"]) + list(sc["rlat"]) + list(sc.get("dlat") or [])):
            raise InvalidScenario("latencies")
    for f in sc.get("faults") or []:
        if f.get("kind") not in ("partition", "loss") or "start" not in f:
            raise InvalidScenario("fault kind")
        if f["kind"] == "loss" and not all(isinstance(f.get(x), int) for x in ("src", "dst")):
            raise InvalidScenario("loss endpoints")
        if f["kind"] == "partition" and not (isinstance(f.get("a"), list) and isinstance(f.get("b"), list)):
            raise InvalidScenario("partition groups")


# --------------------------------------------------------------------------------------------
# run
# --------------------------------------------------------------------------------------------

class Ctx:
    """Per-run oracle state."""

    def __init__(self, sc, model, tape, obs):
        self.sc = sc
        self.m = model
        self.tape = tape
        self.obs = obs
        self.scheme = sc["scheme"]
        self.faulty = bool(sc.get("faults"))
        self.pending: Violation | None = None
        self.c = {}
        self.writes_by_key: dict = {}
        self.value_key: dict = {}
        for o in sc["ops"]:
            if o["op"] == "w":
                self.writes_by_key.setdefault(o["k"], []).append(o["v"])
                self.value_key[o["v"]] = o["k"]
        self.acks_judged = 0
        self.reads_judged = 0
        self.acked = 0
        self.n_writes = sum(1 for o in sc["ops"] if o["op"] == "w")
        # multi-leader version tracking
        self.prev_versions = None
        self.t_last_write = max((o["t"] for o in sc["ops"] if o["op"] in ("w", "d")), default=0.0)
        self.sweeps_needed = None
        self.t_quiet_ns = None
        self.deferred: list = []
        self.first_equal_sweep = None   # completed sweeps at the first idle tick (>= 1 sweep) at which all stores were equal
        self.unequal_after_sweep = 0    # largest number of completed sweeps at an idle tick at which stores still differed
        self.regressed: set = set()

    def bump(self, k, v=1):
        self.c[k] = self.c.get(k, 0) + v

    def flag(self, k):
        self.c[k] = 1

    def fail(self, sig, msg):
        if self.pending is None:
            self.pending = Violation(sig, msg)

    def suspect(self, recheck, sig, msg):
        """The oracle failed inside the resolving delivery.  The verdict is taken at the end of the current
        simulated nanosecond (first delivery with a later timestamp, or end of run): an apply that happens at the
        same instant as the reply counts as 'before' it, so no verdict depends on same-timestamp tie order."""
        self.deferred.append((self.now_ns(), recheck, sig, msg))

    def now_ns(self):
        return self.m["stores"][0].now.nanoseconds

    def settle(self, t_ns=None):
        """Evaluate deferred suspicions whose instant has passed (all of them when t_ns is None)."""
        while self.deferred and (t_ns is None or self.deferred[0][0] < t_ns):
            t0, recheck, sig, msg = self.deferred.pop(0)
            if recheck(t0):
                self.bump("obs.suspicion_cleared_within_same_instant")
            else:
                self.fail(sig, msg)

    # ---- reflected: value of this write, or of a write the sequencer ordered after it, is in the replica's log
    def _later_set(self, seq_store, key, v):
        log = seq_store.applied_values(key)
        if v in log:
            return set(log[log.index(v):])
        return {v}

    def reflected(self, store, seq_store, key, v, upto_ns=None):
        later = self._later_set(seq_store, key, v)
        applied = store.applied_values(key, upto_ns)
        lit = v in applied
        refl = lit or any(x in later for x in applied)
        return lit, refl

    # ---- reply future resolved (called inside the resolving delivery)
    def on_reply(self, op, value):
        op["reply"] = value
        op["ret"] = self.tape.stamp()
        if self.scheme == "pb":
            self._pb_reply(op, value)
        elif self.scheme == "chain":
            if op["op"] == "w":
                self._chain_write_reply(op, value)
            else:
                self._chain_read_reply(op, value)
        elif self.scheme == "ml":
            self.acked += 1

    def _drops(self):
        net = self.m["net"]
        return net.events_dropped_partition + sum(l.packets_dropped for l in self.m["links"].values())

    def _pb_reply(self, op, value):
        if not isinstance(value, dict) or value.get("status") != "ok":
            return
        self.acked += 1
        stores = self.m["stores"]
        key, v = op["k"], op["v"]
        mode = self.sc["mode"]
        if v not in stores[0].applied_values(key):
            self.bump("obs.ack_before_primary_apply")
        rs = [self.reflected(st, stores[0], key, v) for st in stores[1:]]
        n_refl = sum(1 for (_, r) in rs if r)
        if any(r and not l for (l, r) in rs):
            self.flag("probe.ack_reflected_by_later_write")
        if self.faulty and self._drops() > 0:
            self.flag("probe.ack_after_drop")
        if mode == "SYNC":
            self.acks_judged += 1
            self.flag("probe.sync_ack_judged")
            if n_refl < len(rs):
                missing = [self.m["nodes"][i + 1].name for i, (_, r) in enumerate(rs) if not r]
                self.suspect(lambda t: all(self.reflected(st, stores[0], key, v, t)[1] for st in stores[1:]),
                             "C17/ack-sync-all-backups/PrimaryNode/backup-unapplied",
                          f"SYNC write {key}={v} acknowledged at t={self.m['nodes'][0].now.to_seconds():.6f}s but backups {missing} "
                          f"have applied neither it nor a later write to {key}")
        elif mode == "SEMI_SYNC":
            self.acks_judged += 1
            if 0 < n_refl < len(rs):
                self.flag("probe.semisync_ack_partial")
            if n_refl < 1:
                self.suspect(lambda t: any(self.reflected(st, stores[0], key, v, t)[1] for st in stores[1:]),
                             "C17/ack-semisync-one-backup/PrimaryNode/no-backup-applied",
                          f"SEMI_SYNC write {key}={v} acknowledged at t={self.m['nodes'][0].now.to_seconds():.6f}s but none of the "
                          f"{len(rs)} backups has applied it (or a later write to {key})")

    def _chain_write_reply(self, op, value):
        if not isinstance(value, dict) or value.get("status") != "ok":
            return
        self.acked += 1
        self.acks_judged += 1
        self.flag("probe.chain_ack_judged")
        stores, nodes = self.m["stores"], self.m["nodes"]
        key, v = op["k"], op["v"]
        if self.faulty and self._drops() > 0:
            self.flag("probe.ack_after_drop")
        for i, st in enumerate(stores):
            lit, refl = self.reflected(st, stores[0], key, v)
            if refl and not lit:
                self.flag("probe.ack_reflected_by_later_write")
            if not refl:
                role = nodes[i].role.name.lower()
                self.suspect(lambda t, st=st: self.reflected(st, stores[0], key, v, t)[1],
                             f"C17/ack-chain-all-nodes/ChainNode/{role}-unapplied",
                          f"chain write {key}={v} acknowledged at t={nodes[0].now.to_seconds():.6f}s but node {nodes[i].name} ({role}) "
                          f"has applied neither it nor a later write to {key}")
                return

    def _chain_read_reply(self, op, value):
        if not isinstance(value, dict) or value.get("status") != "ok":
            return
        nodes, stores = self.m["nodes"], self.m["stores"]
        key = op["k"]
        v = value.get("value")
        starts = op.get("starts") or []
        craq = bool(self.sc.get("craq"))
        tail_i = len(nodes) - 1
        # which node served it: the last node at which the Read was delivered
        served_by = starts[-1][1] if starts else nodes[op["node"]].name
        si = [nd.name for nd in nodes].index(served_by)
        forwarded = len(starts) > 1
        if forwarded:
            self.flag("probe.craq_read_forwarded_dirty")
            if starts[0][2] is False:
                self.flag("probe.craq_read_forwarded_after_recheck")  # clean at arrival, dirty after the store read latency
        if craq and si != tail_i and v is not None:
            self.flag("probe.craq_read_served_clean_nontail")
        # did the read overlap an in-flight write to the key (any node still lacking some already-accepted value)?
        head_vals = stores[0].applied_values(key)
        if head_vals and any(x not in stores[tail_i].applied_values(key) for x in head_vals):
            self.flag("probe.read_overlapped_write")
        if v is None:
            return
        if v not in self.value_key or self.value_key[v] != key:
            self.reads_judged += 1
            self.fail("C17/chain-read-committed/ChainNode/phantom-value", f"read of {key} at {served_by} returned {v!r}, never written to {key}")
            return
        committed = stores[tail_i].stamp_of(key, v) is not None
        if not craq and si != tail_i:
            if not committed:
                self.bump("obs.noncraq_nontail_read_uncommitted")
            return
        self.reads_judged += 1
        if committed:
            return
        # cause analysis (narrow signature)
        ta = stores[si].stamp_of(key, v)
        ts = starts[-1][0] if starts else None
        if si == tail_i:
            cause = "tail-served-unapplied"
        elif ta is None:
            cause = "value-not-applied-at-serving-node"
        elif ts is not None and ta > ts:
            # the serving node applied the value after the read's dirty check.  If, in addition, a WriteAck/CommitNotify
            # for the key reached the node between that apply and the reply, a re-check of dirtiness after the read
            # latency would not have helped either: both CRAQ defects are needed for this run (own narrow signature).
            cl = [c for c in self.obs.cleans.get((served_by, key), ()) if ta < c[0] < op["ret"]]
            cause = "applied-and-cleaned-during-read" if cl else "applied-during-read"
        else:
            cl = [c for c in self.obs.cleans.get((served_by, key), ()) if ta < c[0] and (ts is None or c[0] < ts)]
            cause = "cleaned-by-older-version" if cl else "not-marked-dirty"
        self.suspect(lambda t: stores[tail_i].stamp_of(key, v, t) is not None,
                     f"C17/chain-read-committed/ChainNode/{cause}",
                     f"read of {key} at {served_by} (CRAQ={'on' if craq else 'off'}) returned {v!r} at t={nodes[0].now.to_seconds():.6f}s; "
                  f"the tail has not applied {v!r} yet (tail log for {key}: {stores[tail_i].applied_values(key)})")

    # ---- after every delivery
    def on_delivery(self, ev, mon):
        if self.deferred:
            self.settle(ev.time.nanoseconds)
            if self.pending is not None:
                raise self.pending
        self.obs.on_event(ev, mon)
        if self.scheme == "ml":
            if ev.event_type == "AntiEntropy" and not isinstance(ev, hz.ProcessContinuation):
                if not ev.target._versions:
                    self.flag("probe.ml_first_tick_found_leader_empty")
                elif 0 < self.acked < self.n_writes and self.obs.inflight["Replicate"] == 0 \
                        and not any(st.n_inflight for st in self.m["stores"]):
                    self.flag("probe.ml_idle_ticks_between_bursts")
            self._ml_poll()
        if self.pending is not None:
            raise self.pending

    def _ml_poll(self):
        nodes = self.m["nodes"]
        cur = [nd._versions for nd in nodes]
        if self.prev_versions is None:
            self.prev_versions = [dict(v) for v in cur]
            return
        for i, nd in enumerate(nodes):
            pv = self.prev_versions[i]
            vs = cur[i]
            if len(vs) == len(pv) and all(vs[k] is pv.get(k) for k in vs):
                continue
            for k, new in vs.items():
                old = pv.get(k)
                if old is not None and old is not new and not (old == new):
                    if not hz.beats(nd._resolver, new, old):
                        self.bump("probe.ml_version_regressed")
                        self.regressed.add((i, k))
            self.prev_versions[i] = dict(vs)


def _maps_equal(stores):
    first = stores[0].snapshot()
    return all(st.snapshot() == first for st in stores[1:])


def _divergence(stores, names):
    """First (key, replica index) at which a replica differs from replica 0."""
    base = stores[0].snapshot()
    keys = sorted(set().union(*[set(st.snapshot()) for st in stores]))
    for k in keys:
        for i, st in enumerate(stores[1:], start=1):
            if st.snapshot().get(k, None) != base.get(k, None):
                return k, i
    return None


def run(sc: dict) -> dict:
    _validate(sc)
    seed_globals(sc["seed"] if "seed" in sc else 1)
    scheme = sc["scheme"]
    tape = hz.Tape()
    m = hz.build(sc, tape)
    obs = hz.NetObserver(m["net"], tape)
    ctx = Ctx(sc, m, tape, obs)
    nodes, stores = m["nodes"], m["stores"]
    extra = []
    conductor = None
    rs_client = None
    if scheme == "rs":
        rs_client = hz.RSClient("client", m["rs"], tape, lambda op: _rs_done(ctx, op))
        extra.append(rs_client)
    if scheme == "ml":
        interval = float(sc["ae_interval"])

        def decide(now_s):
            return _ml_decide(ctx, now_s)

        conductor = hz.Conductor("conductor", decide, interval * 0.37, max_ticks=900)  # ~330 anti-entropy intervals
        extra.append(conductor)
    sim = Simulation(entities=[*m["entities"], *extra])
    cap = {"pb": 40_000, "chain": 40_000, "ml": 150_000, "rs": 20_000}[scheme]
    mon = Monitor(sim, cap=cap, invariant=ctx.on_delivery)

    # clients
    live_ops = []
    evs = []
    for o in sc["ops"]:
        op = dict(o)
        live_ops.append(op)
        if scheme == "rs":
            evs.append(Event(time=Instant.from_seconds(op["t"]), event_type="c17.op", target=rs_client, context={"op": op}))
            continue
        fut = hz.ReplyFuture(op, ctx.on_reply)
        md = {"key": op["k"], "reply_future": fut}
        if op["op"] == "w":
            md["value"] = op["v"]
        evs.append(Event(time=Instant.from_seconds(op["t"]), event_type="Write" if op["op"] == "w" else "Read",
                         target=nodes[op["node"]], context={"metadata": md}))
    sim.schedule(evs)
    fd = None
    if sc.get("faults"):
        fd = FaultDriver(m["net"], nodes, m["links"], sc["faults"])
        sim.schedule(fd.events())
    if scheme == "ml":
        for i, nd in enumerate(nodes):
            ph = (sc.get("ae_phase") or [0.0])[i % len(sc.get("ae_phase") or [0.0])]
            if ph and ph > 0:
                # chain styles: a daemon first tick at an explicit phase; posthoc: an explicit (non-daemon) round after the writes
                e = Event(time=Instant.from_seconds(ph), event_type="AntiEntropy", target=nd,
                          daemon=sc.get("ae_style", "chain") != "posthoc")
            else:
                e = nd.get_anti_entropy_event()
            if e is not None:
                sim.schedule(e)
        sim.schedule(conductor.first(ctx.t_last_write + 0.5 * interval))

    outcome, payload = run_sim(sim)

    sig, msg = None, ""
    c = ctx.c
    if outcome in ("violation", "exception"):
        sig, msg = payload.sig, payload.msg
        if outcome == "exception":
            sig = f"C17/{sig}"
    elif outcome == "budget":
        c["harness.delivery_cap"] = 1
    diverged = False
    judged_conv = False
    if outcome == "ok" and ctx.deferred:
        ctx.settle(None)
        if ctx.pending is not None:
            outcome, sig, msg = "violation", ctx.pending.sig, ctx.pending.msg
    if outcome == "ok":
        # quiescence: every non-daemon event is drained
        if scheme in ("pb", "chain") and not ctx.faulty:
            if ctx.acked < ctx.n_writes:
                c["obs.unacked_writes_noloss"] = ctx.n_writes - ctx.acked
            judged_conv = True
            if sc.get("valmode") == "alphabet":
                # repeated values: no attribution.  Every replica must hold, per key, the value of the LAST write in the
                # primary's/head's order, and never a value that was not written to that key.
                bad = _last_write_divergence(ctx)
                if bad is not None:
                    diverged = True
                    sig, msg = bad
            elif not _maps_equal(stores):
                diverged = True
                sig, msg = _pbchain_divergence(ctx)
        elif scheme == "rs":
            judged_conv = True
            if not _maps_equal(stores):
                diverged = True
                sig, msg = _rs_divergence(ctx)
        elif scheme == "ml":
            if ctx.sweeps_needed is None and _min_pair_sweeps(ctx) < MAX_SWEEPS:
                # ~330 anti-entropy intervals after the last write some ordered pair still has not exchanged min_sweeps
                # requests: periodic anti-entropy was armed through the public API and is not running.  If the replicas
                # agree nevertheless nothing in the statement is broken (counted); if they differ, the divergence that
                # anti-entropy exists to repair is permanent.
                c["obs.ae_pairs_never_covered"] = 1
                judged_conv = True
                if not _maps_equal(stores):
                    diverged = True
                    sig, msg = _ml_stalled(ctx)
            else:
                judged_conv = True
                if not _maps_equal(stores):
                    diverged = True
                    sig, msg = _ml_divergence(ctx)
        if ctx.faulty and ctx.acked < ctx.n_writes:
            c["probe.write_never_acked_under_fault"] = 1

    # counters / probes
    if obs.overtaken_same_key:
        c["probe.same_key_overtake"] = 1
    if sc.get("valmode") == "alphabet":
        for k, vs in ctx.writes_by_key.items():
            if any(vs[j] == vs[j - 2] != vs[j - 1] for j in range(2, len(vs))):
                c["probe.aba_value_restored"] = 1
            if any(vs[j] == vs[j - 1] for j in range(1, len(vs))):
                c["probe.aba_same_value_rewritten"] = 1
        if any(st.overlapped_puts for st in stores[1:]):
            c["probe.aba_restore_overlapped_put"] = 1  # a replica started a put for a key while another put for it was in flight
    if obs.commit_left_key_dirty:
        c["probe.craq_commit_left_key_dirty"] = 1
    if obs.overtaken_any:
        c["probe.any_overtake"] = 1
    if judged_conv and not diverged and obs.overtaken_same_key:
        c["probe.converged_despite_overtake"] = 1
    if scheme in ("pb", "chain") and outcome == "ok":
        # a replica never applied a value the primary/head applied, i.e. it skipped an overtaken (stale) write
        for k in ctx.writes_by_key:
            seq_vals = set(stores[0].applied_values(k))
            if any(seq_vals - set(st.applied_values(k)) for st in stores[1:]) and not ctx.faulty:
                c["probe.stale_write_skipped"] = 1
                break
    if judged_conv:
        c["judged.convergence"] = 1
    c["judged.acks"] = ctx.acks_judged
    c["judged.reads"] = ctx.reads_judged
    if fd is not None:
        for k, v in fd.counters().items():
            c[k] = c.get(k, 0) + v
    if scheme == "ml":
        st = [nd.stats for nd in nodes]
        if sum(s.conflicts_detected for s in st):
            c["probe.ml_conflict_detected"] = 1
        if sum(s.anti_entropy_keys_repaired for s in st):
            c["probe.ml_ae_repaired"] = 1
        if any(s.overlapped_puts for s in stores):
            c["probe.ml_handlers_overlapped_same_key"] = 1
        if "probe.ml_version_regressed" in c:
            c["probe.ml_version_regressed"] = 1
        if ctx.first_equal_sweep is not None and ctx.first_equal_sweep > 1:
            c["probe.ml_needed_extra_sweeps"] = 1
        if ctx.first_equal_sweep is not None:
            c[f"ml.first_equal_after_sweeps.{min(ctx.first_equal_sweep, 4)}"] = 1
        c["ml.ae_syncs"] = sum(s.anti_entropy_syncs for s in st)
        if sc.get("ae_style") == "posthoc" and ctx.sweeps_needed is not None:
            c["probe.ml_posthoc_rounds"] = 1
    if scheme == "rs" and any(s.overlapped_puts for s in stores):
        c["probe.rs_concurrent_same_key"] = 1
    if scheme == "rs" and "wto" in sc:
        tot = sum(hz._lat(sc, "wlat", i, 0.005) for i in range(sc["n"]))
        if sc["wto"] < tot:
            c["probe.rs_write_budget_below_replica_pass"] = 1  # write_timeout smaller than one pass over all replicas
        if sc.get("rto", 1.0) < sum(hz._lat(sc, "rlat", i, 0.001) for i in range(sc["n"])):
            c["probe.rs_read_budget_below_replica_pass"] = 1
    for k in ("probe.ack_reflected_by_later_write",):
        if k in c:
            c[k] = 1

    repeated = any(len(v) >= 2 for v in ctx.writes_by_key.values())
    evals = ctx.acks_judged + ctx.reads_judged + (1 if judged_conv else 0)
    drops = (c.get("fault.msgs_dropped_by_loss", 0) + c.get("fault.msgs_dropped_by_partition", 0)) if ctx.faulty else 1
    nontrivial = evals >= 1 and (repeated or obs.overtaken_any > 0) and drops >= 1

    def bucket(x):
        return 0 if x == 0 else (1 if x == 1 else (2 if x < 5 else 3))

    variant = sc.get("mode") or ("craq" if sc.get("craq") else None) or sc.get("resolver") or sc.get("wcl") or "-"
    state = repr((scheme, variant, sc["n"], sc.get("klass"), bucket(obs.overtaken_same_key), bucket(ctx.acks_judged),
                  bucket(ctx.reads_judged), diverged, bucket(ctx.sweeps_needed or 0)))
    return result(sig=sig, msg=msg, digest=mon.digest, nontrivial=nontrivial, counters=c,
                  sim_s=mon.last_time_ns / 1e9, deliveries=mon.seq, klass=sc.get("klass", scheme), state=state)


# --------------------------------------------------------------------------------------------
# quiescence analyses
# --------------------------------------------------------------------------------------------

def _last_write_divergence(ctx):
    stores, nodes = ctx.m["stores"], ctx.m["nodes"]
    for key in sorted(ctx.writes_by_key):
        seq_log = stores[0].applied_values(key)
        if not seq_log:
            continue
        want = seq_log[-1]
        written = set(ctx.writes_by_key[key])
        for i, st in enumerate(stores):
            got = st.snapshot().get(key)
            if got == want:
                continue
            cls = type(nodes[i]).__name__
            cause = "holds-superseded-value" if got in written else ("key-missing" if got is None else "phantom-value")
            return (f"C17/converge/{cls}/repeated-values/{cause}",
                    f"at quiescence (writes stopped, all messages delivered, no loss) the last write to {key} in {nodes[0].name}'s order is "
                    f"{want!r} but {nodes[i].name} holds {got!r}; values written to {key}: {ctx.writes_by_key[key]}; apply order at "
                    f"{nodes[0].name}: {seq_log}, at {nodes[i].name}: {st.applied_values(key)}")
    return None


def _pbchain_divergence(ctx):
    stores, nodes = ctx.m["stores"], ctx.m["nodes"]
    key, i = _divergence(stores, None)
    cls = type(nodes[i]).__name__
    ref = stores[0].applied_values(key)
    got = stores[i].applied_values(key)
    written = set(ctx.writes_by_key.get(key, ()))
    final = stores[i].snapshot().get(key)
    if final is not None and final not in written:
        cause = "phantom-value"
    elif [x for x in got if x not in written] or len(set(got)) != len(got):
        cause = "extra-apply"
    elif set(ref) - set(got):
        cause = "missing-apply"
    elif set(got) - set(ref):
        cause = "apply-unknown-to-sequencer"
    else:
        cause = "apply-order-differs"
    return (f"C17/converge/{cls}/{cause}",
            f"at quiescence (writes stopped, all messages delivered, no loss) {nodes[0].name} holds {key}={stores[0].snapshot().get(key)!r} "
            f"but {nodes[i].name} holds {final!r}; apply order at {nodes[0].name}: {ref}, at {nodes[i].name}: {got}")


def _rs_done(ctx, op):
    if op["op"] != "w":
        return
    stores = ctx.m["stores"]
    rs = ctx.m["rs"]
    if op["result"] is True:
        ctx.acked += 1
        ctx.acks_judged += 1
        need = {"ONE": 1, "QUORUM": len(stores) // 2 + 1, "ALL": len(stores)}[ctx.sc["wcl"]]
        have = sum(1 for st in stores if op["v"] in st.applied_values(op["k"]))
        if have < need:
            ctx.fail("C17/ack-replicated-store/ReplicatedStore/too-few-replicas-applied",
                     f"put {op['k']}={op['v']} returned True with write consistency {ctx.sc['wcl']} but only {have} of {len(stores)} "
                     f"replicas have applied it (need {need})")


def _rs_divergence(ctx):
    stores = ctx.m["stores"]
    key, i = _divergence(stores, None)
    a, b = stores[0].applied_values(key), stores[i].applied_values(key)
    if sorted(map(str, a)) != sorted(map(str, b)):
        cause = "missing-apply"
    elif hz.DELETED in a:
        cause = "put-delete-order-differs"
    else:
        cause = "put-order-differs"
    return (f"C17/converge/ReplicatedStore/{cause}",
            f"after all client operations returned, replica r0 holds {key}={stores[0].snapshot().get(key)!r} but r{i} holds "
            f"{stores[i].snapshot().get(key)!r}; apply order at r0: {a}, at r{i}: {b}")


def _min_pair_sweeps(ctx) -> int:
    """Number of completed anti-entropy sweeps after quiescence of the write traffic: the minimum over ordered
    pairs (a,b) of AntiEntropyRequest messages a->b that were sent after the quiet point and have arrived."""
    if ctx.t_quiet_ns is None:
        return 0
    names = [nd.name for nd in ctx.m["nodes"]]
    m = None
    for a in names:
        for b in names:
            if a == b:
                continue
            k = sum(1 for t in ctx.obs.ae_req_arrived.get((a, b), ()) if t >= ctx.t_quiet_ns)
            m = k if m is None else min(m, k)
    return m or 0


def _ml_decide(ctx, now_s) -> bool:
    """Conductor tick: stop keeping the run alive?"""
    obs = ctx.obs
    stores = ctx.m["stores"]
    busy = obs.in_flight_total(("Replicate", "AntiEntropyRequest", "AntiEntropyResponse")) or any(st.n_inflight for st in stores)
    if ctx.t_quiet_ns is None:
        # quiet point: all writes issued and acknowledged, no Replicate in flight, no store operation in flight
        if ctx.acked >= ctx.n_writes and obs.inflight["Replicate"] == 0 and not any(st.n_inflight for st in stores):
            ctx.t_quiet_ns = int(now_s * 1e9)
            ctx.flag("ml.equal_at_quiet_point" if _maps_equal(stores) else "ml.unequal_at_quiet_point")
        return False
    sweeps = _min_pair_sweeps(ctx)
    if busy:
        return False
    eq = _maps_equal(stores)
    if sweeps >= 1:
        if eq and ctx.first_equal_sweep is None:
            ctx.first_equal_sweep = sweeps
        if not eq:
            ctx.unequal_after_sweep = max(ctx.unequal_after_sweep, sweeps)
            ctx.first_equal_sweep = None
    if sweeps >= ctx.sc.get("min_sweeps", 1) and eq:
        ctx.sweeps_needed = sweeps
        return True
    if sweeps >= MAX_SWEEPS:
        return True
    return False


def _ml_stalled(ctx):
    stores, nodes = ctx.m["stores"], ctx.m["nodes"]
    key, i = _divergence(stores, None)
    tq = ctx.t_quiet_ns
    names = [nd.name for nd in nodes]
    silent = [a for a in names
              if not any(t >= (tq or 0) for b in names if b != a for t in ctx.obs.ae_req_arrived.get((a, b), ()))]
    detail = "leader-sent-no-round-after-writes" if silent else "pairs-never-covered"
    syncs = {nd.name: nd.stats.anti_entropy_syncs for nd in nodes}
    return (f"C17/converge/LeaderNode/anti-entropy-stalled/{detail}",
            f"anti-entropy (interval {ctx.sc['ae_interval']}s, style {ctx.sc.get('ae_style', 'chain')}) was armed on every leader, writes stopped "
            f"at t={ctx.t_last_write:.6f}s and ~330 intervals later {nodes[0].name} holds {key}={stores[0].snapshot().get(key)!r} but "
            f"{nodes[i].name} holds {stores[i].snapshot().get(key)!r}; leaders that sent no anti-entropy request after the writes: {silent}; "
            f"anti_entropy_syncs per leader: {syncs}")


def _ml_divergence(ctx):
    stores, nodes = ctx.m["stores"], ctx.m["nodes"]
    key, i = _divergence(stores, None)
    sweeps = _min_pair_sweeps(ctx)
    raced = any(k == key for (_, k) in ctx.regressed)
    detail = "race-observed" if raced else "no-race-observed"
    vers = {nd.name: (nd._versions.get(key).value if nd._versions.get(key) else None,
                      nd._versions.get(key).vector_clock if nd._versions.get(key) else None) for nd in nodes}
    return (f"C17/converge/LeaderNode/persists-after-anti-entropy/{detail}",
            f"writes stopped, replication drained and {sweeps} full anti-entropy sweeps completed, yet {nodes[0].name} holds "
            f"{key}={stores[0].snapshot().get(key)!r} and {nodes[i].name} holds {stores[i].snapshot().get(key)!r}; versions: {vers}")
