"""C15 — durably acknowledged writes survive a crash at any point.

One scenario = one workload (1-4 concurrent writer processes doing put/delete
against the repo's LSMTree + WriteAheadLog) plus its set of crash points.  The
workload is first run to completion to learn its length L in deliveries and
where its flush / compaction windows are; then, for every crash index k of the
scenario, the same workload is re-run from scratch, stopped right after
delivery k (a private StopAt raised from the monitor hook), `crash()` and
`recover_from_crash()` are called and every key is read back.
DESIGN.md section 5, C15.
"""
from __future__ import annotations

import hashlib
import random

from simkit import repo

repo.activate()

from happysimulator.core.entity import Entity  # noqa: E402
from happysimulator.core.simulation import Simulation  # noqa: E402
from happysimulator.core.temporal import Instant  # noqa: E402

from simkit import c14_storage as S  # noqa: E402
from simkit.history import History  # noqa: E402
from simkit.rng import seed_globals  # noqa: E402
from simkit.world import BudgetExceeded, InvalidScenario, Monitor, Violation, repo_exception_sig, result  # noqa: E402

PROPERTY = "C15"
RUNS = {"quick": 300, "thorough": 60_000}
WALL = {"quick": 90, "thorough": 1500}
BATCH = {"quick": 8, "thorough": 50}
SELFTEST_RUNS = 6
RULE = (
    "each case is one workload (1-5 writer processes, 3-14 put/delete ops each on 3-5 keys with unique values, seeded start "
    "offsets and think times; 15 % of workloads mix in put_sync; LSMTree with memtable 1-6 or 64, 2-4 levels, any compaction "
    "strategy, WriteAheadLog with SyncEveryWrite / SyncOnBatch(1-4) / SyncPeriodic(0.5-20 ms), policy drawn uniformly) together "
    "with its crash indices: every delivery index when the workload has <= 72 deliveries (thorough: <= 400), otherwise every "
    "index inside or adjacent to a flush/compaction window or WAL truncation (<= 54) plus a seeded sample and the final index; each "
    "crash index is a fresh re-run stopped after that delivery, then crash(), recover_from_crash(), read-back, second recover, "
    "second crash+recover.  For up to 5 first-crash indices (3 of them inside windows) a follow-up workload (1-3 new writer "
    "processes) runs on the recovered tree in a new Simulation starting at the crash instant and is crashed again at up to 6 of "
    "its delivery indices (window-biased), then recovered and read back against the first recovery's state plus the follow-up "
    "writes.  Non-trivial = at least one crash point fell inside a flush or compaction window and at least one crash point "
    "restored a durable write from the WAL.  Distinct = distinct hashes of (delivery digest, recovered states)."
)
STATE_MEASURE = ("distinct (sync policy, memtable bucket, writers, in-flush, in-compaction, writers-inside-append bucket, unsynced tail lost, "
                 "memtable entries lost, WAL entries replayed bucket, sstables>0) tuples over crash points")
REAL = [
    "happysimulator.components.storage.lsm_tree.LSMTree (put/delete/flush/compaction/crash/recover_from_crash/get_sync)",
    "happysimulator.components.storage.wal.WriteAheadLog + SyncEveryWrite / SyncOnBatch / SyncPeriodic",
    "happysimulator.components.storage.memtable.Memtable", "happysimulator.components.storage.sstable.SSTable",
    "happysimulator.core.simulation.Simulation (instrumented loop)",
]
STUBS = [
    "Writer entities: generator bodies interpreting the JSON op lists (harness)",
    "StopAt: private exception raised from the monitor hook after delivery k (the crash point)",
    "durability oracle: per key, intervals + WAL sequence numbers of the writes issued before the crash (harness)",
]
ASSUMPTIONS = [
    "a write is 'durably acknowledged' at the crash instant iff its WAL sequence number <= wal.synced_up_to (the repo's own "
    "definition: WriteAheadLog.crash() keeps exactly those entries); its sequence number is read from the WAL right before the write starts",
    "after recovery a key may hold the value of any write to it that was not completed before a *durable* write to the same key was "
    "invoked: the latest durable write, a durable write concurrent with it, or a later / concurrent non-durable write (which may have "
    "reached an SSTable); a key with no durable write may also be absent",
    "'resurrected' is taken as: a value overwritten or deleted by a durable write reappears; losing non-durable suffixes is legitimate",
    "un-synced WAL entries surviving crash() are not judged (the statement does not forbid extra durability)",
    "processes suspended at the crash die with it; work after a recovery is done by new processes in a new Simulation that starts at "
    "the crash instant on the same (recovered) LSMTree/WAL objects; what the first recovery made readable counts as durable",
    "bystander stores are independent LSMTree+WAL instances in the same Simulation; when one loses power its own writer processes die "
    "with it (engine `_crashed` flag) and it is judged by the same oracle on its own keys; the primary store must be unaffected",
    "auxiliary check beyond the letter of the statement (asked for by the integrator after commit b3cd99f): when a follow-up workload on "
    "the recovered tree runs to completion and its flushes leave should_compact() true, at least one compaction must have run",
    "15 % of the puts store a falsy value (0, 0.0, False, '', (), [], {}), each at most once per key; values are compared by type and repr",
    "put_sync goes through WriteAheadLog.append_sync, which never syncs: such a write is durable only once a later fsync covers it",
]
EXPECTED_PROBES = [
    "fault.crash_points", "fault.crash_in_flush_window", "fault.crash_in_compaction_window",
    "fault.second_crash_points", "fault.second_crash_in_flush_window", "fault.second_crash_in_compaction_window",
    "fault.bystander_crash_points", "fault.bystander_crash_in_flush_window", "fault.bystander_crash_in_compaction_window",
    "probe.bystander_outage_while_primary_holds_unflushed_writes",
    "fault.crash_points_policy_every", "fault.crash_points_policy_batch", "fault.crash_points_policy_periodic",
    "fault.crash_lost_unsynced_wal_tail", "fault.crash_lost_memtable_entries", "fault.crash_lost_immutable_memtable_entries",
    "fault.crash_with_writers_inside_wal_append", "probe.durable_write_restored_from_wal",
    "probe.nondurable_write_survived_in_sstable", "probe.durable_delete_read_back_absent", "probe.wal_truncated_before_crash",
    "probe.crash_after_wal_sync_before_memtable_put", "probe.all_crash_points_covered", "probe.crash_with_three_levels_occupied",
    "probe.crash_after_tombstone_reached_sstable", "probe.compaction_requested_while_one_in_progress",
    "probe.wal_kept_entries_of_newer_memtable_across_flush", "probe.sync_api_write_in_workload",
    "probe.follow_up_workload_wanted_compaction", "probe.compaction_ran_after_crash_inside_compaction_window",
    "probe.crash_after_concurrent_flushes_with_different_write_times", "probe.second_crash_while_replayed_memtable_is_being_flushed",
    "workloads_policy_every", "workloads_policy_batch", "workloads_policy_periodic", "workloads_with_bystander_store",
    "probe.falsy_value_read_back_after_recovery",
]
SHRINK_SKIP = ("keys", "kind", "strategy", "klass", "policy")  # side stores shrink like everything else

CAP = 4000
MAX_ALL = 72
START_NS = [0, 0, 0, 1_000, 50_000, 100_000, 500_000, 1_000_000, 1_500_000, 2_500_000]
GAP_NS = [0, 0, 0, 1_000, 10_000, 100_000, 300_000, 1_000_000, 1_100_000, 2_000_000, 3_000_000]


class StopAt(Exception):
    """Private: raised from the monitor hook right after the crash-point delivery."""


# --------------------------------------------------------------------------
# workload
# --------------------------------------------------------------------------

class Writer(Entity):
    def __init__(self, name, idx, spec, w: "World"):
        super().__init__(name)
        if not isinstance(spec, dict) or not isinstance(spec.get("ops"), list):
            raise InvalidScenario("writer")
        self.idx, self.spec, self.w = idx, spec, w
        self.done = False
        self.gen = None

    def handle_event(self, event):
        self.gen = self.w.tracker.add(self._body())
        return self.gen

    def _body(self):
        W = self.w
        lsm, wal, hist, keys = W.lsm, W.wal, W.hist, W.keys
        n = len(keys)
        tag = W.tag
        for i, op in enumerate(self.spec["ops"]):
            if not isinstance(op, dict):
                raise InvalidScenario("op")
            g = S.gap_s(op)
            if g > 0:
                yield g
            key = keys[S.check_index(op.get("k"), n)]
            kind = op.get("op")
            seq = wal._next_sequence  # the sequence number the WAL is about to assign
            if kind in ("put", "put_sync"):
                val = S.make_value(op, f"{tag}{self.idx}.{i}")
                h = hist.invoke(self.idx, "put", key, S.canon(val), seq=seq, sync_api=kind == "put_sync")
                W.writes[key].append(h)
                W.by_seq[seq] = h
                if kind == "put":
                    yield from lsm.put(key, val)
                else:
                    lsm.put_sync(key, val)
                    W.sync_api_ops += 1
            elif kind == "delete":
                h = hist.invoke(self.idx, "delete", key, None, seq=seq, sync_api=False)
                W.writes[key].append(h)
                W.by_seq[seq] = h
                yield from lsm.delete(key)
            else:
                raise InvalidScenario("op kind")
            hist.complete(h)
        self.done = True


class DurabilityWatch:
    """Read-only, per delivery: which SSTables have existed (and since when),
    and which WAL entries were truncated before their write was represented in
    any SSTable.  Used only to name the cause of a failed read-back."""

    def __init__(self, world: "World"):
        self.w = world
        self.seen: dict[int, tuple[object, int]] = {}
        self.done_seqs: set[int] = set()
        self.trunc_unflushed: set[int] = set()
        self.truncations = 0
        self.overlap_compactions = False
        self.max_levels_occupied = 0
        self.tomb_in_sst = False
        self.compaction_requests_while_busy = 0
        self._flushes = world.lsm._total_memtable_flushes
        self._compacting_prev = 0
        self.compaction_wanted = 0
        self._compactions0 = world.lsm._total_compactions

    def represented(self, o) -> bool:
        key = o["key"]
        for sst, first in self.seen.values():
            ok, v = S.sst_lookup(sst, key)
            if not ok:
                continue
            if o["kind"] == "put":
                if S.norm(v) == o["value"]:
                    return True
            elif v is S.TOMB and first >= o["inv"]:
                return True
        return False

    def observe(self):
        W = self.w
        lsm = W.lsm
        stamp = W.hist._stamp
        occ = 0
        for level in lsm._levels:
            if level:
                occ += 1
            for sst in level:
                if id(sst) not in self.seen:
                    self.seen[id(sst)] = (sst, stamp)
                    if not self.tomb_in_sst and any(v is S.TOMB for v in sst._values):
                        self.tomb_in_sst = True
        if occ > self.max_levels_occupied:
            self.max_levels_occupied = occ
        cur = {e.sequence_number for e in W.wal._entries}
        gone = [q for q in range(1, W.wal._next_sequence) if q not in cur and q not in self.done_seqs]
        if gone:
            self.truncations += 1
            for q in gone:
                self.done_seqs.add(q)
                o = W.by_seq.get(q)
                if o is not None and not self.represented(o):
                    self.trunc_unflushed.add(q)
        ph = W.tracker.phases()
        if ph["compact"] >= 2:
            self.overlap_compactions = True
        fl = lsm._total_memtable_flushes
        if fl != self._flushes:
            self._flushes = fl
            if lsm._compaction_strategy.should_compact(lsm._levels):
                self.compaction_wanted += 1
            if getattr(lsm, "_compaction_in_progress", False) and self._compacting_prev >= 1 and \
                    ph["compact"] <= self._compacting_prev and lsm._compaction_strategy.should_compact(lsm._levels):
                self.compaction_requests_while_busy += 1
        self._compacting_prev = ph["compact"]


def _pseudo_initial(key, value):
    """The state a recovery left behind, as a durable write that completed before everything that follows."""
    return {"id": -1, "client": "recovered", "kind": "put" if value is not None else "delete", "key": key, "value": value,
            "inv": -1, "ret": 0, "seq": 0, "sync_api": False}


def check_mark(ctx, mon):
    """fine: the durability mark is the observation channel of the oracle, so it must be honest: it moves only forward and
    only in a delivery in which an fsync completed"""
    mark, syncs = ctx.wal.synced_up_to, ctx.wal.stats.syncs
    if mark < ctx._mark:
        raise Violation("synced-mark-monotonic/WriteAheadLog/went-backwards",
                        f"wal.synced_up_to went from {ctx._mark} to {mark} at delivery {mon.seq}")
    if mark != ctx._mark and syncs == ctx._syncs:
        raise Violation("synced-mark-only-at-sync-completion/WriteAheadLog/advanced-without-completed-sync",
                        f"wal.synced_up_to advanced from {ctx._mark} to {mark} at delivery {mon.seq} although no sync "
                        f"completed in that delivery (stats.syncs still {syncs})")
    ctx._mark, ctx._syncs = mark, syncs


class SideStore:
    """A second, independent LSMTree + WAL living in the same Simulation as the primary store, with its own keys, writers and
    reference model.  At its outage indices the harness crashes and recovers it between two deliveries (its writer processes
    die with it, through the engine's own `_crashed` flag) while the primary store keeps running; it is judged on its own by
    the same durability oracle.  Two instances must not influence each other."""

    def __init__(self, world, idx, spec):
        if not isinstance(spec, dict):
            raise InvalidScenario("side store")
        self.world, self.idx, self.spec = world, idx, spec
        self.keys = spec.get("keys")
        if not isinstance(self.keys, list) or not self.keys or sorted(set(self.keys)) != self.keys:
            raise InvalidScenario("side keys")
        eng = spec.get("engine")
        if not isinstance(eng, dict) or eng.get("kind") != "lsm" or not isinstance(eng.get("wal"), dict):
            raise InvalidScenario("side store needs an LSM tree with a WAL")
        self.tag = f"s{idx}v"
        self.lsm, self.ents = S.build_engine(eng, name=f"side{idx}")
        self.wal = self.lsm._wal
        self.hist = world.hist
        self.tracker = S.ProcTracker()
        self.by_seq, self.sync_api_ops, self.prior_values = {}, 0, {}
        self.writes = {k: [] for k in self.keys}
        ws = spec.get("writers")
        if not isinstance(ws, list) or not ws:
            raise InvalidScenario("side writers")
        self.writers = [Writer(f"s{idx}w{i}", i, w, self) for i, w in enumerate(ws)]
        out = spec.get("outages") or []
        if not isinstance(out, list) or any(isinstance(x, bool) or not isinstance(x, int) or x < 1 for x in out):
            raise InvalidScenario("outages")
        self.outages = set(out)
        self.watch = DurabilityWatch(self)
        self.fow = S.FlushOrderWatch(self.lsm)
        self.watch.observe()
        self._mark, self._syncs = self.wal.synced_up_to, self.wal.stats.syncs
        self.mon = None
        self.outages_done = 0

    def replayed_frozen(self) -> bool:
        return False

    def after(self, ev, mon):
        self.mon = mon
        self.watch.observe()
        self.fow.observe()
        check_mark(self, mon)
        if mon.seq in self.outages:
            W = self.world
            prim = W.lsm
            C = W.C
            C["probe.bystander_outage_while_primary_holds_unflushed_writes"] += int(prim._memtable.size > 0 or bool(prim._immutable_memtables))
            for w in self.writers:
                w._crashed = True  # the repo's own crash flag: the engine drops this entity's pending continuations
            out = crash_recover_judge(self, f"bystander store {self.idx}: outage after delivery {mon.seq}", C, W.states,
                                      {"engine": self.spec["engine"]}, "side")
            self.outages_done += 1
            if isinstance(out, tuple):
                raise Violation(out[0][4:] + "/bystander-store", out[1])


class World:
    """One fresh instance of a workload phase (built identically for every
    re-run).  Phase 1 builds the LSM tree; phase 2 (`base` given) starts new
    writer processes on the *recovered* tree of `base` in a new Simulation that
    begins at the crash instant: the processes of phase 1 died with the crash."""

    def __init__(self, sc, stop_at=None, *, base: "World | None" = None, recovered: dict | None = None,
                 C: dict | None = None, states: set | None = None):
        self.sc = sc
        self.C = C if C is not None else {n: 0 for n in COUNTERS}
        self.states = states if states is not None else set()
        self.sides = []
        self.keys = sc.get("keys")
        if not isinstance(self.keys, list) or not self.keys or sorted(set(self.keys)) != self.keys:
            raise InvalidScenario("keys")
        eng = sc.get("engine")
        if not isinstance(eng, dict) or eng.get("kind") != "lsm" or not isinstance(eng.get("wal"), dict):
            raise InvalidScenario("C15 needs an LSM tree with a WAL")
        self.tracker = S.ProcTracker()
        self.by_seq = {}
        self.sync_api_ops = 0
        self.prior_values = {}
        self.replay_memtable = None
        if base is None:
            seed_globals(sc.get("seed", 0) if isinstance(sc.get("seed", 0), int) else 0)
            self.tag = "v"
            self.lsm, ents = S.build_engine(eng)
            self.hist = History()
            self.writes = {k: [] for k in self.keys}
            ws = sc.get("writers")
            start = None
        else:
            self.tag = "x"
            self.sync_api_ops = base.sync_api_ops
            self.replay_memtable = base.lsm._memtable if base.lsm._memtable.size else None
            self.lsm, ents = base.lsm, [base.lsm]
            self.hist = base.hist
            self.writes = {k: [_pseudo_initial(k, recovered[k])] for k in self.keys}
            self.prior_values = {k: {o["value"] for o in base.writes[k] if o["kind"] == "put"} for k in self.keys}
            after = sc.get("after")
            if not isinstance(after, dict):
                raise InvalidScenario("after")
            ws = after.get("writers")
            start = Instant(base.mon.last_time_ns)
        self.wal = self.lsm._wal
        if not isinstance(ws, list) or not ws:
            raise InvalidScenario("writers")
        self.writers = [Writer(f"{self.tag}w{i}", i, spec, self) for i, spec in enumerate(ws)]
        if base is None:
            side = sc.get("side") or []
            if not isinstance(side, list):
                raise InvalidScenario("side")
            self.sides = [SideStore(self, i, sp) for i, sp in enumerate(side)]
        all_writers = self.writers + [w for sd in self.sides for w in sd.writers]
        self.sim = Simulation(entities=ents + [e for sd in self.sides for e in sd.ents] + all_writers, start_time=start)
        t0 = 0 if start is None else start.nanoseconds
        for w in all_writers:
            st = w.spec.get("start_ns", 0)
            if isinstance(st, bool) or not isinstance(st, int) or st < 0:
                raise InvalidScenario("start")
            self.sim.schedule(S.start_event(t0 + st, w))
        self.stop_at = stop_at
        self.phase_log = []  # per delivery: (flush in flight, compaction in flight, wal size, digest prefix)
        self.watch = DurabilityWatch(self)
        self.fow = S.FlushOrderWatch(self.lsm)
        self.watch.observe()
        self._mark, self._syncs = self.wal.synced_up_to, self.wal.stats.syncs
        self.mon = Monitor(self.sim, cap=CAP, invariant=self._after)

    def _after(self, ev, mon):
        self.watch.observe()
        self.fow.observe()
        check_mark(self, mon)
        for sd in self.sides:
            sd.after(ev, mon)
        if self.stop_at is None:
            ph = self.tracker.phases()
            self.phase_log.append((ph["flush"] + len(self.lsm._immutable_memtables) > 0, ph["compact"] > 0,
                                   len(self.wal._entries), mon.digest))
        elif mon.seq == self.stop_at:
            raise StopAt()

    def replayed_frozen(self) -> bool:
        return self.replay_memtable is not None and any(m is self.replay_memtable for m in self.lsm._immutable_memtables)

    def run(self):
        """-> 'done' | 'stopped' | ('violation', sig, msg)"""
        try:
            self.sim.run()
        except StopAt:
            return "stopped"
        except BudgetExceeded as b:
            return ("violation", "C15/no-progress/LSMTree/delivery-cap", str(b))
        except Violation as v:
            return ("violation", f"C15/{v.sig}", v.msg)
        except Exception as exc:  # noqa: BLE001
            sig = repo_exception_sig(exc)
            if sig is None:
                raise
            return ("violation", f"C15/{sig}", repr(exc))
        if not all(w.done for w in self.writers):
            return ("violation", "C15/no-progress/LSMTree/writer-never-finished", "a writer operation never completed")
        return "done"


def baseline(sc):
    w = World(sc)
    st = w.run()
    return w, st


# --------------------------------------------------------------------------
# generation (the dry runs that learn lengths and windows are part of it)
# --------------------------------------------------------------------------

def choose_crash_points(phase_log, rng, max_all=MAX_ALL, max_hot=None) -> list[int]:
    """All indices when the phase is short; otherwise every index inside or
    next to a flush/compaction window or a WAL truncation (up to max_hot),
    topped up with a seeded sample of the rest."""
    L = len(phase_log)
    if L <= max_all:
        return list(range(1, L + 1))
    max_hot = max_hot if max_hot is not None else (max_all * 3) // 4
    hot = set()
    prev_wal = 0
    for i, (fl, co, wal_n, _) in enumerate(phase_log, start=1):
        if fl or co or wal_n < prev_wal:
            hot.update(x for x in (i - 1, i, i + 1) if 1 <= x <= L)
        prev_wal = wal_n
    hot = sorted(hot)
    if len(hot) > max_hot:
        hot = sorted(rng.sample(hot, max_hot))
    rest = [k for k in range(1, L + 1) if k not in set(hot)]
    extra = rng.sample(rest, min(len(rest), max(0, max_all - len(hot))))
    return sorted(set(hot) | set(extra) | {L})


def _gen_ops(rng, n_keys, n, sync_api):
    out = []
    for _ in range(n):
        r = rng.random()
        kind = "delete" if r < 0.3 else ("put_sync" if sync_api and r < 0.42 else "put")
        out.append({"op": kind, "k": rng.randrange(n_keys), "gap_ns": rng.choice(GAP_NS)})
    return out


def _gen_wide(rng, tier):
    """Many keys, memtable 16: the first phase leaves ~10-20 entries to be replayed; the follow-up is a burst of many concurrent
    single-put writers right after recovery (the replayed memtable is over-filled to >= 32 keys and takes two pages to write) plus a
    later, smaller burst whose 16-key memtable is written faster; second crashes are sampled densely inside those flush windows."""
    n_keys = rng.randint(40, 48)
    keys = sorted(f"k{i:02d}" for i in rng.sample(range(100), n_keys))
    policy = rng.choice(["every", "batch", "periodic"])
    eng = S.gen_lsm_spec(rng, memtable=16, wal="no")
    eng["wal"] = S.gen_wal_spec(rng, policy)
    eng["w_us"] = rng.choice([2000, 2000, 5000])
    order = rng.sample(range(n_keys), n_keys)
    n1 = rng.randint(10, 20)
    writers = [{"start_ns": rng.choice([0, 0, 50_000]), "ops": [{"op": "put", "k": order[i], "gap_ns": 0}]} for i in range(n1)]
    after, pos, t = [], n1, 0
    for g in range(rng.randint(2, 3)):
        size = rng.choice([17, 18, 20, 22]) if g == 0 else rng.choice([8, 16, 16, 17])
        for _ in range(size):
            after.append({"start_ns": t, "ops": [{"op": "put" if rng.random() < 0.9 else "delete", "k": order[pos % n_keys], "gap_ns": 0}]})
            pos += 1
        t += rng.choice([50_000, 100_000, 100_000, 200_000])
    S.assign_falsy(rng, [o for w_ in writers + after for o in w_["ops"] if o["op"] == "put"], 0.15)
    sc = {"kind": "crash", "klass": "wide", "seed": rng.getrandbits(32), "keys": keys, "engine": eng, "writers": writers,
          "after": {"writers": after}, "crash": {"ks": [], "second": []}}
    r2 = random.Random(sc["seed"])
    w, st = baseline(sc)
    L = len(w.phase_log)
    sc["crash"]["ks"] = choose_crash_points(w.phase_log, r2, 24 if tier == "quick" else 120)
    if L and not isinstance(st, tuple):
        for k in sorted({L} | set(r2.sample(range(max(1, L - 20), L + 1), min(2, L)))):
            L2 = _second_phase_length(sc, k)
            if L2:
                sc["crash"]["second"].extend([k, j] for j in choose_crash_points(L2, r2, 14 if tier == "quick" else 80,
                                                                                  12 if tier == "quick" else 60))
    return sc


def gen(rng, tier):
    if rng.random() < 0.12:
        return _gen_wide(rng, tier)
    n_keys = rng.randint(3, 5)
    keys = sorted(f"k{i:02d}" for i in rng.sample(range(100), n_keys))
    policy = rng.choice(["every", "batch", "periodic"])
    mt = rng.choice([1, 1, 2, 2, 3, 4, 6, 64])
    eng = S.gen_lsm_spec(rng, memtable=mt, wal="no")
    eng["wal"] = S.gen_wal_spec(rng, policy)
    eng["w_us"] = rng.choice([200, 500, 2000, 2000, 5000])
    eng["max_levels"] = rng.choice([2, 3, 3, 4])
    n_w = rng.choice([1, 2, 2, 3, 3, 4, 5])
    sync_api = rng.random() < 0.15
    writers = [{"start_ns": rng.choice(START_NS), "ops": _gen_ops(rng, n_keys, rng.randint(3, 14), sync_api)} for _ in range(n_w)]
    klass = ("1w" if n_w == 1 else "nw") + ("+sync-api" if sync_api else "")
    sc = {"kind": "crash", "klass": klass, "seed": rng.getrandbits(32), "keys": keys, "engine": eng, "writers": writers,
          "after": {"writers": [{"start_ns": rng.choice(START_NS), "ops": _gen_ops(rng, n_keys, rng.randint(2, 7), False)}
                                for _ in range(rng.randint(1, 3))]},
          "crash": {"ks": [], "second": []}}
    S.assign_falsy(rng, [o for w_ in writers + sc["after"]["writers"] for o in w_["ops"] if o["op"] in ("put", "put_sync")], 0.15)
    r2 = random.Random(sc["seed"])
    max_all = MAX_ALL if tier == "quick" else 400
    if rng.random() < 0.3:
        # bystander stores: 1-2 further, independent LSMTree+WAL instances in the same simulation, each with its own keys and
        # writers (often a longer history than the primary's, started earlier); each loses power and is recovered at 1-2 delivery
        # indices inside the primary's activity while the primary keeps running
        sc["klass"] = klass + "+bystander"
        sc["side"] = []
        shift = rng.choice([0, 0, 1_000_000, 5_000_000, 20_000_000])
        for w_ in sc["writers"]:
            w_["start_ns"] += shift
        for _ in range(rng.choice([1, 1, 2])):
            nk = rng.randint(2, 4)
            seng = S.gen_lsm_spec(rng, memtable=rng.choice([1, 2, 2, 3]), wal="no")
            seng["wal"] = S.gen_wal_spec(rng)
            sc["side"].append({"engine": seng, "keys": sorted(f"s{i:02d}" for i in rng.sample(range(100), nk)),
                               "writers": [{"start_ns": rng.choice([0, 0, 100_000]), "ops": _gen_ops(rng, nk, rng.randint(4, 24), False)}
                                           for _ in range(rng.randint(1, 2))], "outages": []})
        w0, st0 = baseline(sc)
        L0 = len(w0.phase_log)
        first_primary = next((i + 1 for i, p_ in enumerate(w0.phase_log) if p_[2] > 0), 1)  # primary WAL non-empty
        for sd in sc["side"]:
            lo = min(L0, first_primary)
            sd["outages"] = sorted(set(r2.sample(range(lo, L0 + 1), min(rng.choice([1, 2, 3]), L0 + 1 - lo)))) if L0 >= 1 else []
    w, st = baseline(sc)
    ks = choose_crash_points(w.phase_log, r2, max_all)
    sc["crash"]["ks"] = ks
    # second crash, during the work that follows the first recovery: a few first-crash indices (window-biased), and for each
    # a few second-crash indices inside the follow-up phase (all of them when it is short)
    if ks and not isinstance(st, tuple):
        hot = [k for k in ks if k <= len(w.phase_log) and (w.phase_log[k - 1][0] or w.phase_log[k - 1][1])]
        firsts = set(r2.sample(hot, min(len(hot), 3))) | set(r2.sample(ks, min(len(ks), 2))) | {ks[-1]}
        for k in sorted(firsts):
            L2 = _second_phase_length(sc, k)
            if L2:
                js = choose_crash_points(L2, r2, 6 if tier == "quick" else 40, 4 if tier == "quick" else 30)
                sc["crash"]["second"].extend([k, j] for j in js)
    return sc


def _second_phase_length(sc, k):
    """Dry run: phase 1 up to k, crash, recover, phase 2 to completion -> its phase log (None if anything is off)."""
    W = World(sc, stop_at=k)
    if W.run() != "stopped":
        return None
    try:
        W.lsm.crash()
        W.lsm.recover_from_crash()
        rec = {key: S.canon(W.lsm.get_sync(key)) for key in W.keys}
    except Exception:  # noqa: BLE001  (judged properly in run())
        return None
    W2 = World(sc, base=W, recovered=rec)
    if W2.run() != "done":
        return None
    return W2.phase_log


# --------------------------------------------------------------------------
# crash, recover, read back, judge
# --------------------------------------------------------------------------

def _sst_has(lsm, key, want) -> bool:
    for level in lsm._levels:
        for sst in level:
            ok, v = S.sst_lookup(sst, key)
            if ok and (v is S.TOMB if want is None else S.norm(v) == want):
                return True
    return False


def _superseded(w, durable) -> bool:
    return any(w["ret"] is not None and d["inv"] > w["ret"] for d in durable if d is not w)


def crash_recover_judge(W: World, label: str, C: dict, states: set, sc: dict, phase: str):
    """W is stopped at the crash point.  crash(), recover, read back, judge.
    -> (sig, msg) on violation, else the recovered state dict."""
    lsm, wal = W.lsm, W.wal
    ph = W.tracker.phases()
    in_flush = ph["flush"] > 0 or len(lsm._immutable_memtables) > 0
    in_comp = ph["compact"] > 0
    replay_frozen = W.replayed_frozen()
    in_append = sum(1 for g in W.tracker.procs if g.gi_frame is not None and "append" in S.gen_chain(g))
    synced = wal.synced_up_to
    pre_wal = {e.sequence_number: e for e in wal._entries}
    by_seq = W.by_seq
    # fine: every WAL entry is the record of the write the harness associates with that sequence number
    for s, e in pre_wal.items():
        o = by_seq.get(s)
        if o is None:
            if phase == "second":
                continue  # a record from before the first crash (judged there)
            return ("C15/wal-entry-matches-write/WriteAheadLog/unknown-entry",
                    f"{label}: WAL entry seq={s} ({e.key!r}) belongs to no write the harness issued")
        if o["key"] != e.key or (e.value is not S.TOMB and S.canon(e.value) != o["value"]) or ((e.value is S.TOMB) != (o["kind"] == "delete")):
            return ("C15/wal-entry-matches-write/WriteAheadLog/mismatch",
                    f"{label}: WAL entry seq={s} holds ({e.key!r}, {S.norm(e.value)!r}) but the write issued with that "
                    f"sequence number was {(o['kind'], o['key'], o['value'])}")
    pre_sst = {key: [S.norm(v) for where, v in S.lsm_view(lsm, key) if where.startswith("L")] for key in W.keys}
    try:
        info = lsm.crash()
        post_wal = {e.sequence_number for e in wal._entries}
        rec = lsm.recover_from_crash()
        state1 = {key: S.canon(lsm.get_sync(key)) for key in W.keys}
        lsm.recover_from_crash()
        state2 = {key: S.canon(lsm.get_sync(key)) for key in W.keys}
        lsm.crash()
        lsm.recover_from_crash()
        state3 = {key: S.canon(lsm.get_sync(key)) for key in W.keys}
    except Exception as exc:  # noqa: BLE001
        sig = repo_exception_sig(exc)
        if sig is None:
            raise
        return f"C15/{sig}", f"{label}: {exc!r}"

    # ---- counters (what actually happened at this crash point)
    pol = sc["engine"]["wal"]["policy"]
    pre = {"second": "fault.second_", "side": "fault.bystander_"}.get(phase, "fault.")
    C[pre + "crash_points"] += 1
    C[f"fault.crash_points_policy_{pol}"] += 1
    C[pre + "crash_in_flush_window"] += int(in_flush)
    C[pre + "crash_in_compaction_window"] += int(in_comp)
    C["fault.crash_lost_unsynced_wal_tail"] += int(info["wal_entries_lost"] > 0)
    C["fault.crash_lost_memtable_entries"] += int(info["memtable_entries_lost"] + info["immutable_memtable_entries_lost"] > 0)
    C["fault.crash_lost_immutable_memtable_entries"] += int(info["immutable_memtable_entries_lost"] > 0)
    C["fault.crash_with_writers_inside_wal_append"] += int(in_append > 0)
    C["probe.durable_write_restored_from_wal"] += int(rec["wal_entries_replayed"] > 0)
    C["probe.wal_truncated_before_crash"] += int(W.watch.truncations > 0)
    C["probe.crash_with_three_levels_occupied"] += int(W.watch.max_levels_occupied >= 3)
    C["probe.crash_after_tombstone_reached_sstable"] += int(W.watch.tomb_in_sst)
    C["probe.compaction_requested_while_one_in_progress"] += int(W.watch.compaction_requests_while_busy > 0)
    C["probe.wal_kept_entries_of_newer_memtable_across_flush"] += int(W.watch.truncations > 0 and len(pre_wal) > 0)
    C["probe.crash_after_concurrent_flushes_with_different_write_times"] += int(W.fow.different_write_times)
    if phase == "second":
        C["probe.second_crash_while_replayed_memtable_is_being_flushed"] += int(in_flush and replay_frozen)
    if phase != "side":
        C["_sim_ns"] = C.get("_sim_ns", 0) + W.mon.last_time_ns
    states.add(repr((phase, pol, min(sc["engine"]["memtable"], 4), min(len(W.writers), 3), in_flush, in_comp,
                     min(in_append, 2), info["wal_entries_lost"] > 0, info["memtable_entries_lost"] > 0,
                     min(rec["wal_entries_replayed"], 3), rec["sstable_keys"] > 0, min(W.watch.max_levels_occupied, 3))))

    # ---- read-back of every key
    for key in W.keys:
        ws = W.writes[key]
        durable = [o for o in ws if o["seq"] <= synced]
        got = state1[key]
        values = {o["value"] for o in ws if o["kind"] == "put"} | W.prior_values.get(key, set())  # prior: written before the first crash
        if got is S.TOMB:
            return ("C15/no-phantom-value/LSMTree/tombstone-sentinel-returned", f"{label}: key {key} reads the tombstone sentinel")
        if got is not None and got not in values:
            other = [kk for kk in W.keys if any(o["value"] == got for o in W.writes[kk])]
            where = "value-of-another-key" if other else "value-nobody-wrote"
            return (f"C15/no-phantom-value/LSMTree/{where}",
                    f"{label}: after recovery key {key} reads {got!r}, which was never written to it")
        allowed = {S.wval(o) for o in ws if not _superseded(o, durable)}
        if not durable:
            allowed.add(None)
        if any(o["seq"] <= synced and o["ret"] is None for o in ws):
            C["probe.crash_after_wal_sync_before_memtable_put"] += 1
        if got in allowed:
            if isinstance(got, tuple):
                C["probe.falsy_value_read_back_after_recovery"] += 1
            if durable and got is None:
                C["probe.durable_delete_read_back_absent"] += 1
            if got is not None and all(o["seq"] > synced for o in ws if o["value"] == got):
                C["probe.nondurable_write_survived_in_sstable"] += 1
            continue
        # ---- violation: name the cause from what was where
        cands = sorted((o for o in durable if not _superseded(o, durable)), key=lambda o: o["seq"])
        d = cands[-1]
        want = S.wval(d)
        ov = S.order_suffix(W.watch.overlap_compactions, W.fow.inverted)
        if d["seq"] == 0:
            cause = "state-of-first-recovery-lost-by-second-crash" + ("/after-out-of-order-flush-completion" if W.fow.inverted else "")
        elif d["seq"] in W.watch.trunc_unflushed and not W.watch.represented(d):
            cause = "wal-truncated-before-entry-reached-sstable"
        elif d["seq"] in pre_wal and d["seq"] not in post_wal:
            cause = "wal-crash-dropped-synced-entry"
        elif d["seq"] in post_wal:
            cause = "synced-wal-entry-not-restored"
        elif d["seq"] not in pre_wal and not W.watch.represented(d):
            cause = "wal-entry-vanished-without-reaching-sstable"
        else:
            cause = f"durable-entry-reached-sstable-but-is-shadowed-or-dropped/{ov}"
        if phase == "second":
            cause += "/after-first-recovery"
        symptom = ("durable write lost (key absent)" if got is None else
                   "overwritten/deleted value resurrected" if want is None or got != want else "?")
        hist = [f"{'del' if o['kind'] == 'delete' else 'put ' + repr(o['value'])} seq={o['seq']}"
                f"{' durable' if o['seq'] <= synced else ''} [{o['inv']},{o['ret']}]" for o in ws]
        return (f"C15/durable-readback/LSMTree/{cause}",
                f"{label} (flush in flight: {in_flush}, compaction in flight: {in_comp}, synced_up_to={synced}, "
                f"WAL seqs before crash {sorted(pre_wal)}): {symptom}: key {key} reads {got!r} after crash+recover; allowed "
                f"{sorted(map(repr, allowed))}; writes to the key: {hist}; sstable entries for the key before the crash: {pre_sst[key]}")
    if state2 != state1:
        diff = {kk: (state1[kk], state2[kk]) for kk in W.keys if state1[kk] != state2[kk]}
        return ("C15/recover-idempotent/LSMTree/second-recover-changes-state",
                f"{label}: recover_from_crash() twice differs from once: {diff}")
    if state3 != state1:
        diff = {kk: (state1[kk], state3[kk]) for kk in W.keys if state1[kk] != state3[kk]}
        return ("C15/recover-idempotent/LSMTree/second-crash-recover-changes-state",
                f"{label}: crash+recover a second time differs from the first recovery: {diff}")
    return state1


def first_crash(sc, k, L, base_digest, C, states):
    """Fresh re-run stopped after delivery k, then crash/recover/judge.  -> (World, outcome)"""
    W = World(sc, stop_at=k, C=C, states=states)
    st = W.run()
    if st != "stopped":
        if isinstance(st, tuple):
            return W, (st[1], st[2])
        raise RuntimeError(f"re-run finished before delivery {k} (baseline had it)")
    if base_digest is not None and W.mon.digest != base_digest:
        raise RuntimeError(f"re-run diverged from the baseline run before delivery {k}")
    return W, crash_recover_judge(W, f"crash index {k} of {L}", C, states, sc, "first")


def second_crash(sc, k, j, L, base_digest, C, states):
    """First crash at k (judged silently: it is judged on its own elsewhere), follow-up workload on the recovered tree,
    second crash after its delivery j."""
    scratch = {n: 0 for n in C}
    W, out = first_crash(sc, k, L, base_digest, scratch, set())
    if isinstance(out, tuple):
        return None  # the first crash already fails; reported by the first-crash pass
    W2 = World(sc, stop_at=j, base=W, recovered=out)
    st = W2.run()
    if st == "done":  # follow-up phase shorter than j: crash after its last delivery
        st = "stopped"
    if st == "stopped" and all(w.done for w in W2.writers):
        # auxiliary (see ASSUMPTIONS): the recovered tree must still be a working engine.  If flushes of the completed follow-up
        # workload asked for compaction, at least one compaction must have run; a guard left set by the crash disables it forever
        ran = W2.lsm._total_compactions - W2.watch._compactions0
        first_in_comp = W.tracker.phases()["compact"] > 0
        if W2.watch.compaction_wanted:
            C["probe.follow_up_workload_wanted_compaction"] += 1
            if first_in_comp:
                C["probe.compaction_ran_after_crash_inside_compaction_window"] += int(ran > 0)
            if ran == 0:
                return ("C15/recovered-tree-compacts-again/LSMTree/" +
                        ("crash-was-inside-compaction-window" if first_in_comp else "crash-outside-compaction-window"),
                        f"first crash at index {k} of {L} ({'inside' if first_in_comp else 'outside'} a compaction window), recovery, "
                        f"follow-up workload ran to completion: {W2.watch.compaction_wanted} flush(es) left the tree in a state where "
                        f"should_compact() is true, yet no compaction ran (compactions still {W2.lsm._total_compactions}, "
                        f"_compaction_in_progress={getattr(W2.lsm, '_compaction_in_progress', None)})")
    if st != "stopped":
        return st[1] + "/after-first-recovery", f"first crash at {k}, follow-up phase: {st[2]}"
    C["workloads_sync_api_ops"] += W2.sync_api_ops
    return crash_recover_judge(W2, f"first crash at index {k} of {L}, recovery, follow-up workload, second crash after its delivery "
                                   f"{min(j, W2.mon.seq)}", C, states, sc, "second")


COUNTERS = [
    "fault.crash_points", "fault.crash_in_flush_window", "fault.crash_in_compaction_window",
    "fault.second_crash_points", "fault.second_crash_in_flush_window", "fault.second_crash_in_compaction_window",
    "fault.bystander_crash_points", "fault.bystander_crash_in_flush_window", "fault.bystander_crash_in_compaction_window",
    "probe.bystander_outage_while_primary_holds_unflushed_writes",
    "fault.crash_points_policy_every", "fault.crash_points_policy_batch", "fault.crash_points_policy_periodic",
    "fault.crash_lost_unsynced_wal_tail", "fault.crash_lost_memtable_entries", "fault.crash_lost_immutable_memtable_entries",
    "fault.crash_with_writers_inside_wal_append",
    "probe.durable_write_restored_from_wal", "probe.nondurable_write_survived_in_sstable", "probe.durable_delete_read_back_absent",
    "probe.wal_truncated_before_crash", "probe.crash_after_wal_sync_before_memtable_put", "probe.all_crash_points_covered",
    "probe.crash_with_three_levels_occupied", "probe.crash_after_tombstone_reached_sstable",
    "probe.compaction_requested_while_one_in_progress", "probe.wal_kept_entries_of_newer_memtable_across_flush",
    "probe.sync_api_write_in_workload", "workloads_sync_api_ops",
    "probe.follow_up_workload_wanted_compaction", "probe.compaction_ran_after_crash_inside_compaction_window",
    "probe.crash_after_concurrent_flushes_with_different_write_times", "probe.second_crash_while_replayed_memtable_is_being_flushed",
    "probe.falsy_value_read_back_after_recovery",
]


def run(sc):
    if not isinstance(sc, dict) or sc.get("kind") != "crash":
        raise InvalidScenario("scenario")
    crash = sc.get("crash")
    if not isinstance(crash, dict) or not isinstance(crash.get("ks"), list):
        raise InvalidScenario("crash points")
    ks = crash["ks"]
    if any(isinstance(k, bool) or not isinstance(k, int) for k in ks):
        raise InvalidScenario("crash index")
    second = crash.get("second") or []
    if not isinstance(second, list) or any(not isinstance(p, list) or len(p) != 2 or
                                           any(isinstance(x, bool) or not isinstance(x, int) or x < 1 for x in p) for p in second):
        raise InvalidScenario("second crash points")
    S.check_fv_unique((o.get("k"), o.get("fv")) for grp in (sc.get("writers") or [], (sc.get("after") or {}).get("writers") or [])
                      for w_ in grp if isinstance(w_, dict) for o in w_.get("ops") or [] if isinstance(o, dict))
    base, st = baseline(sc)
    C = {name: 0 for name in COUNTERS}
    L = base.mon.seq
    sig = msg = None
    states = set()
    hh = hashlib.blake2b(digest_size=12)
    hh.update(base.mon.digest.encode())
    done_ks = 0
    if isinstance(st, tuple):
        sig, msg = st[1], st[2]
    else:
        digests = [p[3] for p in base.phase_log]
        first_ks = sorted({min(k, L) for k in ks if k >= 1})  # an index beyond the workload means "after the last delivery"
        if not first_ks and not second:
            raise InvalidScenario("no crash point")
        for k in first_ks:
            _, out = first_crash(sc, k, L, digests[k - 1], C, states)
            done_ks += 1
            if isinstance(out, tuple):
                sig, msg = out
                break
            hh.update(f"{k}:{sorted(out.items())!r}".encode())
        if sig is None:
            for k, j in sorted({(min(p[0], L), p[1]) for p in second}):
                out = second_crash(sc, k, j, L, digests[k - 1], C, states)
                if out is None:
                    continue
                if isinstance(out, tuple):
                    sig, msg = out
                    break
                hh.update(f"{k}/{j}:{sorted(out.items())!r}".encode())
    if done_ks == L:
        C["probe.all_crash_points_covered"] = 1
    if base.sync_api_ops:
        C["probe.sync_api_write_in_workload"] = 1
    sim_ns = C.pop("_sim_ns", 0)
    C["workload_deliveries"] = L
    C["flushes"] = base.lsm.stats.memtable_flushes
    C["compactions"] = base.lsm.stats.compactions
    C[f"workloads_policy_{sc['engine']['wal'].get('policy')}"] = 1
    if sc.get("side"):
        C["workloads_with_bystander_store"] = 1
    nontrivial = (C["fault.crash_in_flush_window"] + C["fault.crash_in_compaction_window"] > 0
                  and C["probe.durable_write_restored_from_wal"] > 0)
    return result(sig=sig, msg=msg or "", digest=hh.hexdigest(), nontrivial=nontrivial, counters=C,
                  sim_s=(base.mon.last_time_ns + sim_ns) / 1e9,
                  deliveries=L + sum(min(k, L) for k in set(ks) if k >= 1) + sum(min(p[0], L) + p[1] for p in second),
                  klass=sc.get("klass", "crash"), state=sorted(states))
