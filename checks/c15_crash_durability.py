"""C15 — durably acknowledged writes survive a crash at any point.

One scenario = one workload (1-4 concurrent writer processes doing put/delete
against the repo's LSMTree + WriteAheadLog) plus its set of crash points.  The
workload is first run to completion to learn its length L in deliveries and
where its flush / compaction windows are; then, for every crash index k of the
scenario, the same workload is re-run from scratch, stopped right after
delivery k (a private StopAt raised from the monitor hook), `crash()` and
`recover_from_crash()` are called and every key is read back.
DESIGN.md section 5, C15.
"""
from __future__ import annotations

import hashlib
import random

from simkit import repo

repo.activate()

from happysimulator.core.entity import Entity  # noqa: E402
from happysimulator.core.simulation import Simulation  # noqa: E402

from simkit import c14_storage as S  # noqa: E402
from simkit.history import History  # noqa: E402
from simkit.rng import seed_globals  # noqa: E402
from simkit.world import BudgetExceeded, InvalidScenario, Monitor, Violation, repo_exception_sig, result  # noqa: E402

PROPERTY = "C15"
RUNS = {"quick": 500, "thorough": 60_000}
WALL = {"quick": 55, "thorough": 1500}
BATCH = {"quick": 8, "thorough": 50}
SELFTEST_RUNS = 6
RULE = (
    "each case is one workload (1-4 writer processes, 3-10 put/delete ops each on 3-5 keys with unique values, seeded start "
    "offsets and think times; LSMTree with memtable 1-6 or 64, any compaction strategy, WriteAheadLog with SyncEveryWrite / "
    "SyncOnBatch(1-4) / SyncPeriodic(0.5-20 ms)) together with its crash indices: every delivery index when the workload has "
    "<= 64 deliveries, otherwise all indices inside or adjacent to flush/compaction windows (<= 40) plus a seeded sample; each "
    "crash index (thorough tier: every index up to 400 deliveries) is a fresh re-run stopped after that delivery, then crash(), recover_from_crash(), read-back, second recover, "
    "second crash+recover.  Non-trivial = at least one crash point fell inside a flush or compaction window and at least one "
    "crash point restored a durable write from the WAL.  Distinct = distinct hashes of (delivery digest, recovered states)."
)
STATE_MEASURE = ("distinct (sync policy, memtable bucket, writers, in-flush, in-compaction, writers-inside-append bucket, unsynced tail lost, "
                 "memtable entries lost, WAL entries replayed bucket, sstables>0) tuples over crash points")
REAL = [
    "happysimulator.components.storage.lsm_tree.LSMTree (put/delete/flush/compaction/crash/recover_from_crash/get_sync)",
    "happysimulator.components.storage.wal.WriteAheadLog + SyncEveryWrite / SyncOnBatch / SyncPeriodic",
    "happysimulator.components.storage.memtable.Memtable", "happysimulator.components.storage.sstable.SSTable",
    "happysimulator.core.simulation.Simulation (instrumented loop)",
]
STUBS = [
    "Writer entities: generator bodies interpreting the JSON op lists (harness)",
    "StopAt: private exception raised from the monitor hook after delivery k (the crash point)",
    "durability oracle: per key, intervals + WAL sequence numbers of the writes issued before the crash (harness)",
]
ASSUMPTIONS = [
    "a write is 'durably acknowledged' at the crash instant iff its WAL sequence number <= wal.synced_up_to (the repo's own "
    "definition: WriteAheadLog.crash() keeps exactly those entries); its sequence number is read from the WAL right before the write starts",
    "after recovery a key may hold the value of any write to it that was not completed before a *durable* write to the same key was "
    "invoked: the latest durable write, a durable write concurrent with it, or a later / concurrent non-durable write (which may have "
    "reached an SSTable); a key with no durable write may also be absent",
    "'resurrected' is taken as: a value overwritten or deleted by a durable write reappears; losing non-durable suffixes is legitimate",
    "un-synced WAL entries surviving crash() are not judged (the statement does not forbid extra durability)",
    "the simulation is not resumed after recovery (the statement ends at readability after recovery)",
]
EXPECTED_PROBES = [
    "fault.crash_points", "fault.crash_in_flush_window", "fault.crash_in_compaction_window", "fault.crash_lost_unsynced_wal_tail",
    "fault.crash_lost_memtable_entries", "fault.crash_with_writers_inside_wal_append", "probe.durable_write_restored_from_wal",
    "probe.nondurable_write_survived_in_sstable", "probe.durable_delete_read_back_absent", "probe.wal_truncated_before_crash",
    "probe.crash_after_wal_sync_before_memtable_put", "probe.all_crash_points_covered",
]
SHRINK_SKIP = ("keys", "kind", "strategy", "klass", "policy")

CAP = 4000
MAX_ALL = 64
START_NS = [0, 0, 0, 1_000, 50_000, 100_000, 500_000, 1_000_000, 1_500_000, 2_500_000]
GAP_NS = [0, 0, 0, 1_000, 10_000, 100_000, 300_000, 1_000_000, 1_100_000, 2_000_000, 3_000_000]


class StopAt(Exception):
    """Private: raised from the monitor hook right after the crash-point delivery."""


# --------------------------------------------------------------------------
# workload
# --------------------------------------------------------------------------

class Writer(Entity):
    def __init__(self, name, idx, spec, w: "World"):
        super().__init__(name)
        if not isinstance(spec, dict) or not isinstance(spec.get("ops"), list):
            raise InvalidScenario("writer")
        self.idx, self.spec, self.w = idx, spec, w
        self.done = False
        self.gen = None

    def handle_event(self, event):
        self.gen = self.w.tracker.add(self._body())
        return self.gen

    def _body(self):
        W = self.w
        lsm, wal, hist, keys = W.lsm, W.wal, W.hist, W.keys
        n = len(keys)
        for i, op in enumerate(self.spec["ops"]):
            if not isinstance(op, dict):
                raise InvalidScenario("op")
            g = S.gap_s(op)
            if g > 0:
                yield g
            key = keys[S.check_index(op.get("k"), n)]
            kind = op.get("op")
            seq = wal._next_sequence  # the sequence number wal.append() is about to assign
            if kind == "put":
                val = f"v{self.idx}.{i}"
                h = hist.invoke(self.idx, "put", key, val, seq=seq)
                W.writes[key].append(h)
                W.by_seq[seq] = h
                yield from lsm.put(key, val)
            elif kind == "delete":
                h = hist.invoke(self.idx, "delete", key, None, seq=seq)
                W.writes[key].append(h)
                W.by_seq[seq] = h
                yield from lsm.delete(key)
            else:
                raise InvalidScenario("op kind")
            hist.complete(h)
        self.done = True


class DurabilityWatch:
    """Read-only, per delivery: which SSTables have existed (and since when),
    and which WAL entries were truncated before their write was represented in
    any SSTable.  Used only to name the cause of a failed read-back."""

    def __init__(self, world: "World"):
        self.w = world
        self.seen: dict[int, tuple[object, int]] = {}
        self.done_seqs: set[int] = set()
        self.trunc_unflushed: set[int] = set()
        self.truncations = 0
        self.overlap_compactions = False

    def represented(self, o) -> bool:
        key = o["key"]
        for sst, first in self.seen.values():
            ok, v = S.sst_lookup(sst, key)
            if not ok:
                continue
            if o["kind"] == "put":
                if v == o["value"]:
                    return True
            elif v is S.TOMB and first >= o["inv"]:
                return True
        return False

    def observe(self):
        W = self.w
        stamp = W.hist._stamp
        for level in W.lsm._levels:
            for sst in level:
                if id(sst) not in self.seen:
                    self.seen[id(sst)] = (sst, stamp)
        cur = {e.sequence_number for e in W.wal._entries}
        gone = [q for q in range(1, W.wal._next_sequence) if q not in cur and q not in self.done_seqs]
        if gone:
            self.truncations += 1
            for q in gone:
                self.done_seqs.add(q)
                o = W.by_seq.get(q)
                if o is not None and not self.represented(o):
                    self.trunc_unflushed.add(q)
        if W.tracker.phases()["compact"] >= 2:
            self.overlap_compactions = True


class World:
    """One fresh instance of the workload (built identically for every re-run)."""

    def __init__(self, sc, stop_at=None):
        seed_globals(sc.get("seed", 0) if isinstance(sc.get("seed", 0), int) else 0)
        self.sc = sc
        self.keys = sc.get("keys")
        if not isinstance(self.keys, list) or not self.keys or sorted(set(self.keys)) != self.keys:
            raise InvalidScenario("keys")
        eng = sc.get("engine")
        if not isinstance(eng, dict) or eng.get("kind") != "lsm" or not isinstance(eng.get("wal"), dict):
            raise InvalidScenario("C15 needs an LSM tree with a WAL")
        self.lsm, ents = S.build_engine(eng)
        self.wal = self.lsm._wal
        self.tracker = S.ProcTracker()
        self.hist = History()
        self.writes = {k: [] for k in self.keys}
        self.by_seq = {}
        ws = sc.get("writers")
        if not isinstance(ws, list) or not ws:
            raise InvalidScenario("writers")
        self.writers = [Writer(f"w{i}", i, spec, self) for i, spec in enumerate(ws)]
        self.sim = Simulation(entities=ents + self.writers)
        for w in self.writers:
            st = w.spec.get("start_ns", 0)
            if isinstance(st, bool) or not isinstance(st, int) or st < 0:
                raise InvalidScenario("start")
            self.sim.schedule(S.start_event(st, w))
        self.stop_at = stop_at
        self.phase_log = []  # per delivery: (flush in flight, compaction in flight, wal size, digest prefix)
        self.watch = DurabilityWatch(self)
        self._mark, self._syncs = self.wal.synced_up_to, self.wal.stats.syncs
        self.mon = Monitor(self.sim, cap=CAP, invariant=self._after)

    def _after(self, ev, mon):
        self.watch.observe()
        # fine: the durability mark is the observation channel of the oracle, so it must be honest:
        # it moves only forward and only in a delivery in which an fsync completed
        mark, syncs = self.wal.synced_up_to, self.wal.stats.syncs
        if mark < self._mark:
            raise Violation("synced-mark-monotonic/WriteAheadLog/went-backwards",
                            f"wal.synced_up_to went from {self._mark} to {mark} at delivery {mon.seq}")
        if mark != self._mark and syncs == self._syncs:
            raise Violation("synced-mark-only-at-sync-completion/WriteAheadLog/advanced-without-completed-sync",
                            f"wal.synced_up_to advanced from {self._mark} to {mark} at delivery {mon.seq} although no sync "
                            f"completed in that delivery (stats.syncs still {syncs})")
        self._mark, self._syncs = mark, syncs
        if self.stop_at is None:
            ph = self.tracker.phases()
            self.phase_log.append((ph["flush"] + len(self.lsm._immutable_memtables) > 0, ph["compact"] > 0,
                                   len(self.wal._entries), mon.digest))
        elif mon.seq == self.stop_at:
            raise StopAt()

    def run(self):
        """-> 'done' | 'stopped' | ('violation', sig, msg)"""
        try:
            self.sim.run()
        except StopAt:
            return "stopped"
        except BudgetExceeded as b:
            return ("violation", "C15/no-progress/LSMTree/delivery-cap", str(b))
        except Violation as v:
            return ("violation", f"C15/{v.sig}", v.msg)
        except Exception as exc:  # noqa: BLE001
            sig = repo_exception_sig(exc)
            if sig is None:
                raise
            return ("violation", f"C15/{sig}", repr(exc))
        if not all(w.done for w in self.writers):
            return ("violation", "C15/no-progress/LSMTree/writer-never-finished", "a writer operation never completed")
        return "done"


def baseline(sc):
    w = World(sc)
    st = w.run()
    return w, st


# --------------------------------------------------------------------------
# generation (the dry run that learns L and the windows is part of it)
# --------------------------------------------------------------------------

def choose_crash_points(phase_log, rng, max_all=MAX_ALL) -> list[int]:
    L = len(phase_log)
    if L <= max_all:
        return list(range(1, L + 1))
    hot = set()
    prev_wal = 0
    for i, (fl, co, wal_n, _) in enumerate(phase_log, start=1):
        if fl or co or wal_n < prev_wal:
            hot.update(x for x in (i - 1, i, i + 1) if 1 <= x <= L)
        prev_wal = wal_n
    hot = sorted(hot)
    if len(hot) > 40:
        hot = sorted(rng.sample(hot, 40))
    rest = [k for k in range(1, L + 1) if k not in set(hot)]
    extra = rng.sample(rest, min(len(rest), max(0, max_all - len(hot))))
    return sorted(set(hot) | set(extra))


def gen(rng, tier):
    klass = rng.choices(["1w", "nw-noflush", "nw"], weights=[25, 10, 65])[0]
    n_keys = rng.randint(3, 5)
    keys = sorted(f"k{i:02d}" for i in rng.sample(range(100), n_keys))
    mt = 64 if klass == "nw-noflush" else rng.choice([1, 1, 2, 2, 3, 4, 6])
    eng = S.gen_lsm_spec(rng, memtable=mt, wal="yes")
    eng["w_us"] = rng.choice([200, 500, 2000, 2000, 5000])
    n_w = 1 if klass == "1w" else rng.randint(2, 4)
    writers = []
    for _ in range(n_w):
        ops = [{"op": "put" if rng.random() < 0.7 else "delete", "k": rng.randrange(n_keys), "gap_ns": rng.choice(GAP_NS)}
               for _ in range(rng.randint(3, 10))]
        writers.append({"start_ns": rng.choice(START_NS), "ops": ops})
    sc = {"kind": "crash", "klass": klass, "seed": rng.getrandbits(32), "keys": keys, "engine": eng, "writers": writers,
          "crash": {"ks": []}}
    w, st = baseline(sc)
    sc["crash"]["ks"] = choose_crash_points(w.phase_log, random.Random(sc["seed"]), MAX_ALL if tier == "quick" else 400)
    return sc


# --------------------------------------------------------------------------
# the crash experiment at one index
# --------------------------------------------------------------------------

def _sst_has(lsm, key, want) -> bool:
    for level in lsm._levels:
        for sst in level:
            ok, v = S.sst_lookup(sst, key)
            if ok and (v is S.TOMB if want is None else v == want):
                return True
    return False


def _superseded(w, durable) -> bool:
    return any(w["ret"] is not None and d["inv"] > w["ret"] for d in durable if d is not w)


def crash_at(sc, k, base_digest, C, states):
    """Re-run, stop after delivery k, crash, recover, judge.  -> (sig, msg) | None"""
    W = World(sc, stop_at=k)
    st = W.run()
    if st != "stopped":
        if isinstance(st, tuple):
            return st[1], st[2]
        raise RuntimeError(f"re-run finished before delivery {k} (baseline had it)")
    if W.mon.digest != base_digest:
        raise RuntimeError(f"re-run diverged from the baseline run before delivery {k}")
    lsm, wal = W.lsm, W.wal
    ph = W.tracker.phases()
    in_flush = ph["flush"] > 0 or len(lsm._immutable_memtables) > 0
    in_comp = ph["compact"] > 0
    in_append = sum(1 for g in W.tracker.procs if g.gi_frame is not None and "append" in S.gen_chain(g))
    synced = wal.synced_up_to
    pre_wal = {e.sequence_number: e for e in wal._entries}
    ops = W.hist.ops
    by_seq = W.by_seq
    # fine: every WAL entry is the record of the write the harness associates with that sequence number
    for s, e in pre_wal.items():
        o = by_seq.get(s)
        if o is None or o["key"] != e.key or (e.value is not S.TOMB and e.value != o["value"]) or \
                ((e.value is S.TOMB) != (o["kind"] == "delete")):
            return ("C15/wal-entry-matches-write/WriteAheadLog/mismatch",
                    f"crash index {k}: WAL entry seq={s} holds ({e.key!r}, {S.norm(e.value)!r}) but the write issued with that "
                    f"sequence number was {o and (o['kind'], o['key'], o['value'])}")
    pre_sst = {key: [S.norm(v) for _, v in S.lsm_view(lsm, key) if _.startswith("L")] for key in W.keys}
    try:
        info = lsm.crash()
        post_wal = {e.sequence_number for e in wal._entries}
        rec = lsm.recover_from_crash()
        state1 = {key: lsm.get_sync(key) for key in W.keys}
        lsm.recover_from_crash()
        state2 = {key: lsm.get_sync(key) for key in W.keys}
        lsm.crash()
        lsm.recover_from_crash()
        state3 = {key: lsm.get_sync(key) for key in W.keys}
    except Exception as exc:  # noqa: BLE001
        sig = repo_exception_sig(exc)
        if sig is None:
            raise
        return f"C15/{sig}", f"crash index {k}: {exc!r}"

    # ---- counters (what actually happened at this crash point)
    C["fault.crash_points"] += 1
    C["fault.crash_in_flush_window"] += int(in_flush)
    C["fault.crash_in_compaction_window"] += int(in_comp)
    C["fault.crash_lost_unsynced_wal_tail"] += int(info["wal_entries_lost"] > 0)
    C["fault.crash_lost_memtable_entries"] += int(info["memtable_entries_lost"] + info["immutable_memtable_entries_lost"] > 0 or in_flush)
    C["fault.crash_with_writers_inside_wal_append"] += int(in_append > 0)
    C["probe.durable_write_restored_from_wal"] += int(rec["wal_entries_replayed"] > 0)
    if W.watch.truncations:
        C["probe.wal_truncated_before_crash"] += 1
    C["_sim_ns"] = C.get("_sim_ns", 0) + W.mon.last_time_ns
    states.add(repr((sc["engine"]["wal"]["policy"], min(sc["engine"]["memtable"], 4), len(sc["writers"]), in_flush, in_comp,
                     min(in_append, 2), info["wal_entries_lost"] > 0, info["memtable_entries_lost"] > 0,
                     min(rec["wal_entries_replayed"], 3), rec["sstable_keys"] > 0)))

    # ---- read-back of every key
    for key in W.keys:
        ws = W.writes[key]
        durable = [o for o in ws if o["seq"] <= synced]
        got = state1[key]
        values = {o["value"] for o in ws if o["kind"] == "put"}
        if got is S.TOMB:
            return ("C15/no-phantom-value/LSMTree/tombstone-sentinel-returned", f"crash index {k}: key {key} reads the tombstone sentinel")
        if got is not None and got not in values:
            other = [kk for kk in W.keys if any(o["value"] == got for o in W.writes[kk])]
            where = "value-of-another-key" if other else "value-nobody-wrote"
            return (f"C15/no-phantom-value/LSMTree/{where}",
                    f"crash index {k}: after recovery key {key} reads {got!r}, which was never written to it")
        allowed = {S.wval(o) for o in ws if not _superseded(o, durable)}
        if not durable:
            allowed.add(None)
        if any(o["seq"] <= synced and o["ret"] is None for o in ws):
            C["probe.crash_after_wal_sync_before_memtable_put"] += 1
        if got in allowed:
            if durable and got is None:
                C["probe.durable_delete_read_back_absent"] += 1
            if got is not None and all(o["seq"] > synced for o in ws if o["value"] == got):
                C["probe.nondurable_write_survived_in_sstable"] += 1
            continue
        # ---- violation: name the cause from what was where
        cands = sorted((o for o in durable if not _superseded(o, durable)), key=lambda o: o["seq"])
        d = cands[-1]
        want = S.wval(d)
        in_sst = _sst_has(lsm, key, want)
        ov = "after-overlapping-compactions" if W.watch.overlap_compactions else "compactions-never-overlapped"
        if d["seq"] in W.watch.trunc_unflushed and not W.watch.represented(d):
            cause = "wal-truncated-before-entry-reached-sstable"
        elif d["seq"] in pre_wal and d["seq"] not in post_wal:
            cause = "wal-crash-dropped-synced-entry"
        elif d["seq"] in post_wal:
            cause = "synced-wal-entry-not-restored"
        elif d["seq"] not in pre_wal and not W.watch.represented(d):
            cause = "wal-entry-vanished-without-reaching-sstable"
        else:
            cause = f"durable-entry-reached-sstable-but-is-shadowed-or-dropped/{ov}"
        symptom = ("durable write lost (key absent)" if got is None else
                   "overwritten/deleted value resurrected" if want is None or got != want else "?")
        hist = [f"{'del' if o['kind'] == 'delete' else 'put ' + repr(o['value'])} seq={o['seq']}"
                f"{' durable' if o['seq'] <= synced else ''} [{o['inv']},{o['ret']}]" for o in ws]
        return (f"C15/durable-readback/LSMTree/{cause}",
                f"crash index {k} of {sc['_L']} (flush in flight: {in_flush}, compaction in flight: {in_comp}, synced_up_to={synced}, "
                f"WAL seqs before crash {sorted(pre_wal)}): {symptom}: key {key} reads {got!r} after crash+recover; allowed "
                f"{sorted(map(repr, allowed))}; writes to the key: {hist}; sstable entries for the key before the crash: {pre_sst[key]}")
    if state2 != state1:
        diff = {kk: (state1[kk], state2[kk]) for kk in W.keys if state1[kk] != state2[kk]}
        return ("C15/recover-idempotent/LSMTree/second-recover-changes-state",
                f"crash index {k}: recover_from_crash() twice differs from once: {diff}")
    if state3 != state1:
        diff = {kk: (state1[kk], state3[kk]) for kk in W.keys if state1[kk] != state3[kk]}
        return ("C15/recover-idempotent/LSMTree/second-crash-recover-changes-state",
                f"crash index {k}: crash+recover a second time differs from the first recovery: {diff}")
    return repr(sorted(state1.items()))


def run(sc):
    if not isinstance(sc, dict) or sc.get("kind") != "crash":
        raise InvalidScenario("scenario")
    crash = sc.get("crash")
    if not isinstance(crash, dict) or not isinstance(crash.get("ks"), list):
        raise InvalidScenario("crash points")
    ks = crash["ks"]
    if any(isinstance(k, bool) or not isinstance(k, int) for k in ks):
        raise InvalidScenario("crash index")
    base, st = baseline(sc)
    C = {name: 0 for name in EXPECTED_PROBES}
    L = base.mon.seq
    sc = dict(sc)
    sc["_L"] = L
    sig = msg = None
    states = set()
    hh = hashlib.blake2b(digest_size=12)
    hh.update(base.mon.digest.encode())
    done_ks = 0
    if isinstance(st, tuple):
        sig, msg = st[1], st[2]
    else:
        digests = [p[3] for p in base.phase_log]
        for k in sorted(set(ks)):
            if not 1 <= k <= L:
                continue  # beyond the (possibly shrunk) workload: ignored
            out = crash_at(sc, k, digests[k - 1], C, states)
            done_ks += 1
            if isinstance(out, tuple):
                sig, msg = out
                break
            hh.update(f"{k}:{out}".encode())
        if done_ks == 0:
            raise InvalidScenario("no crash point inside the workload")
    if done_ks == L:
        C["probe.all_crash_points_covered"] = 1
    sim_ns = C.pop("_sim_ns", 0)
    C["workload_deliveries"] = L
    C["flushes"] = base.lsm.stats.memtable_flushes
    C["compactions"] = base.lsm.stats.compactions
    nontrivial = (C["fault.crash_in_flush_window"] + C["fault.crash_in_compaction_window"] > 0
                  and C["probe.durable_write_restored_from_wal"] > 0)
    return result(sig=sig, msg=msg or "", digest=hh.hexdigest(), nontrivial=nontrivial, counters=C,
                  sim_s=(base.mon.last_time_ns + sim_ns) / 1e9, deliveries=L + sum(k for k in set(ks) if 1 <= k <= L),
                  klass=sc.get("klass", "crash"), state=sorted(states))
