#!/venv/bin/python
"""Development tool: prepare scratch worktrees for a round of independently seeded changes.
  tools/seed_round.py <tag> C06 C08 ...   -> /tmp/<tag>_<ID>/ with PROPERTY.txt and TAKEN.txt (nothing from /verif's checks)
"""
import glob, json, os, subprocess, sys
tag, ids = sys.argv[1], sys.argv[2:]
props = {json.loads(l)["id"]: json.loads(l) for l in open("/verif/properties.jsonl")}
for pid in ids:
    d = f"/tmp/{tag}_{pid}"
    subprocess.run(f"rm -rf {d}; git -C /repo worktree prune; git -C /repo worktree add --detach -f {d} HEAD", shell=True, capture_output=True)
    p = props[pid]
    open(f"{d}/PROPERTY.txt", "w").write(f"{p['id']}: {p['title']}\n\n{p['statement']}\n\nQuantifier: {p['quantifier']['text']}\n\nAnchored in: {', '.join(p['anchors']['files'])}\n")
    taken = []
    for m in sorted(glob.glob(f"/verif/seeded/{pid}-*/meta.json")):
        j = json.load(open(m))
        taken.append(f"- {j.get('summary','')}\n  (clause: {j.get('clause_broken','')}; needs: {j.get('needs','')})")
    open(f"{d}/TAKEN.txt", "w").write(("\n".join(taken) if taken else "(none yet)") + "\n")
    print(pid, len(taken), d)
