#!/bin/bash
# collect.sh <tag> <roundnum> IDs...
tag=$1; r=$2; shift 2
cd /verif
L=""
for p in "$@"; do for v in A B C; do if [ -f /tmp/${tag}_$p/out/$v/patch.diff ]; then mkdir -p seeded/$p-$r$v; cp /tmp/${tag}_$p/out/$v/patch.diff /tmp/${tag}_$p/out/$v/demo.py /tmp/${tag}_$p/out/$v/meta.json seeded/$p-$r$v/ 2>/dev/null; L="$L $p-$r$v"; fi; done; git -C /repo worktree remove --force /tmp/${tag}_$p 2>/dev/null; done
/tmp/eval_all.sh $L
