#!/bin/bash
cd /verif
for d in "$@"; do timeout 1500 /venv/bin/python tools/seeded_eval.py seeded/$d --record 2>&1 | python3 -c "
import sys,json
try:
    s=json.load(sys.stdin); print(s['dir'].split('/')[-1], 'applies', s.get('patch_applies'), 'demo', s.get('demo_without_change_rc'), s.get('demo_with_change_rc'), {k:(v['rc'],v['new_signatures'][:3],v['harness']) for k,v in s.get('checks',{}).items()}, flush=True)
except Exception as e: print('$d', 'EVAL-ERROR', e, flush=True)
"; done
