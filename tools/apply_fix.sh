#!/bin/bash
# tools/apply_fix.sh <proposed_fixes/NAME.diff> "<subject line without fix: prefix>"
set -e
D=$(realpath "$1"); S="$2"
cd /repo
git apply --check "$D"
git apply "$D"
BODY=$(python3 - "$D" <<'PY'
import sys,re,os
md=sys.argv[1][:-5]+'.md'
if os.path.exists(md):
    t=open(md).read()
    # first paragraph after the title that starts with **Defect
    m=re.search(r'\*\*Defects?[^*]*\*\*\.?\s*(.+?)(?:\n\n|\Z)', t, re.S)
    if m:
        s=re.sub(r'\s+',' ',m.group(1)).strip()
        s=re.sub(r'\(`?C\d\d/[^)]*\)','',s)
        print(s[:900])
PY
)
git add -A
git commit -q -m "fix: $S" -m "$BODY"
git log --oneline | head -1
