#!/venv/bin/python
"""Regenerate the generated parts of DESIGN.md (section 11 tables, section 12 seeded table)
from known_findings.json, checks/*.fixed.json and seeded/*/meta.json."""
import glob, json, os, re, subprocess
ROOT = os.path.dirname(os.path.dirname(os.path.abspath(__file__)))
kf = json.load(open(os.path.join(ROOT, "known_findings.json")))
out = []
out.append("### 11.1 Defects repaired by `fix:` commits in /repo\n")
out.append("Each line is one `fixed:` record of `known_findings.json` (property, commit, what failed). A fixed entry suppresses nothing: the check passes on the repaired tree without a KNOWN-FINDING line and reports the violation again if it returns (verified for most of them by reverting the commit as a mutant, see the per-property reports).\n")
byp = {}
for s in kf["fixed"]:
    m = re.match(r"fixed: property=(C\d+) (\S+) (.*)", s)
    byp.setdefault(m.group(1), []).append((m.group(2), m.group(3)))
for p in sorted(byp):
    out.append(f"**{p}** ({len(byp[p])})\n")
    for c, w in byp[p]:
        w = re.sub(r"\s*\[signatures:.*", "", w)
        w = re.sub(r"\s*\(replay.*", "", w)
        w = re.sub(r";? ?replays? findings/\S+( findings/\S+)*", "", w)
        out.append(f"* `{c}` {w[:330]}")
    out.append("")
out.append("### 11.2 Defects recorded, not repaired (`known_findings.json` → `findings`)\n")
out.append("These are genuine defects whose repair is a redesign or needs a maintainer decision. Each is identified by a narrow signature (fnmatch pattern over `property/invariant/class/detail`) and has a committed minimised replay under `findings/`. The check prints one `KNOWN-FINDING:` line per matched entry and exits 0; any other signature is a VIOLATION.\n")
for e in kf["findings"]:
    out.append(f"* **{e['property']}** `{e['signature']}` — {e['what'][:600]}" + (f" (replay `{e['replay']}`)" if e.get("replay") else ""))
out.append("")
text11 = "\n".join(out)

rows = []
for d in sorted(glob.glob(os.path.join(ROOT, "seeded", "*"))):
    mp = os.path.join(d, "meta.json")
    if not os.path.exists(mp):
        continue
    m = json.load(open(mp))
    ev = m.get("evaluation", {})
    chk = ev.get("checks", {})
    res = []
    for c, v in chk.items():
        sigs = ", ".join(f"`{s[0]}`" for s in v.get("new_signatures", [])[:2])
        res.append(f"{c}: {'caught' if v.get('rc') == 1 else 'NOT caught'} {sigs}")
    note = m.get("strengthening_note", "")
    if ev and ev.get("patch_applies") is False:
        res.append("patch no longer applies to the current HEAD (see note)")
    rows.append(f"| {os.path.basename(d)} | {m.get('summary','')[:220].replace('|','/')} | {m.get('needs','')[:200].replace('|','/')} | {'; '.join(res)} {note} |")
text12 = "| id | change | needs to manifest | result of the property's quick tier on the changed tree |\n|---|---|---|---|\n" + "\n".join(rows) + "\n"

# per-property as-built summary from the committed evidence files
rows3 = ["| id | check module | quick runs | distinct non-trivial | abstract states | probes (non-zero/all) | fault kinds fired | recorded | repaired | seeded caught |",
         "|---|---|---|---|---|---|---|---|---|---|"]
for ev in sorted(glob.glob(os.path.join(ROOT, "evidence", "C*.json"))):
    e = json.load(open(ev)); pid = e["property_id"]; c = e["coverage"]
    mods = glob.glob(os.path.join(ROOT, "checks", f"{pid.lower()}_*.py"))
    pr = c.get("probes", {}); nz = sum(1 for v in pr.values() if v)
    fk = ", ".join(sorted(k.replace("fault.", "") for k, v in c.get("fault_kinds_fired", {}).items() if v))[:120]
    rec = sum(1 for f in kf["findings"] if f["property"] == pid)
    fx = sum(1 for f in kf["fixed"] if f"property={pid} " in f)
    sd = [m for m in glob.glob(os.path.join(ROOT, "seeded", f"{pid}-*", "meta.json"))]
    caught = 0
    for m in sd:
        j = json.load(open(m)); chk = j.get("evaluation", {}).get("checks", {})
        if any(v.get("rc") == 1 for v in chk.values()) or "caught by" in j.get("strengthening_note", "") or "Evaluated at" in j.get("strengthening_note", ""):
            caught += 1
    rows3.append(f"| {pid} | `{os.path.basename(mods[0]) if mods else '?'}` | {c['evaluations']} | {c['distinct_nontrivial']} | {c.get('distinct_states', 0)} | {nz}/{len(pr)} | {fk or '—'} | {rec} | {fx} | {caught}/{len(sd)} |")
text10 = "\n".join(rows3) + "\n"

p = os.path.join(ROOT, "DESIGN.md")
s = open(p).read()
def put(s, tag, text):
    b, e = f"<!-- BEGIN {tag} -->", f"<!-- END {tag} -->"
    if b not in s:
        return s
    i, j = s.index(b) + len(b), s.index(e)
    return s[:i] + "\n" + text + "\n" + s[j:]
s = put(s, "GENERATED FINDINGS", text11)
s = put(s, "GENERATED SEEDED", text12)
s = put(s, "GENERATED ASBUILT", text10)
open(p, "w").write(s)
print("ok", len(kf["fixed"]), len(kf["findings"]), len(rows))
