#!/bin/bash
# Run the repository's test suite (guard off) on a tree (default /repo); prints pass/fail counts and exit code.
T=${1:-/repo}
cd "$T" && env -u HAPPYSIM_VERIF timeout 2400 /venv/bin/python -m pytest -q -p no:cacheprovider --timeout=900 -n ${2:-8} --junitxml=/tmp/suite_$$.xml > /tmp/suite_$$.out 2>&1
rc=$?
python3 - <<PY
import xml.etree.ElementTree as ET
r=ET.parse('/tmp/suite_$$.xml').getroot()
s=r if r.tag=='testsuite' else r[0]
print({k:s.get(k) for k in ('tests','failures','errors','skipped')})
for tc in s.iter('testcase'):
    if tc.find('failure') is not None or tc.find('error') is not None:
        print('FAILED', tc.get('classname'), tc.get('name'))
PY
echo "SUITE_EXIT=$rc"
rm -f /tmp/suite_$$.xml /tmp/suite_$$.out
