#!/venv/bin/python
"""Development tool (not a registered command): run checks against a mutated
scratch worktree of /repo.

  tools/mutant.py --patch some.diff C01 [C04 ...] [-- extra vcheck args]
  tools/mutant.py --replace FILE 'old text' 'new text' C01

The scratch worktree lives under /tmp and is removed afterwards.
"""
import os, subprocess, sys, tempfile, shutil

def main():
    a = sys.argv[1:]
    extra = []
    if "--" in a:
        i = a.index("--"); extra = a[i+1:]; a = a[:i]
    wt = tempfile.mkdtemp(prefix="vmut_", dir="/tmp")
    os.rmdir(wt)
    subprocess.run(["git", "-C", "/repo", "worktree", "add", "--detach", "-f", wt, "HEAD"], check=True, capture_output=True)
    rc_all = {}
    try:
        props = []
        while a:
            x = a.pop(0)
            if x == "--patch":
                p = os.path.abspath(a.pop(0))
                subprocess.run(["git", "-C", wt, "apply", p], check=True)
            elif x == "--replace":
                f, old, new = a.pop(0), a.pop(0), a.pop(0)
                path = os.path.join(wt, f)
                s = open(path).read()
                if s.count(old) < 1:
                    raise SystemExit(f"pattern not found in {f}")
                open(path, "w").write(s.replace(old, new, 1))
            else:
                props.append(x)
        print(subprocess.run(["git", "-C", wt, "diff", "--stat"], capture_output=True, text=True).stdout)
        for pr in props:
            env = dict(os.environ, VERIF_REPO=wt)
            r = subprocess.run(["/venv/bin/python", "/verif/vcheck.py", pr, "--no-evidence", "--no-selftest"] + extra,
                               env=env, capture_output=True, text=True)
            tail = "\n".join(r.stdout.strip().splitlines()[-8:])
            print(f"=== {pr} rc={r.returncode}\n{tail}\n{r.stderr[-600:]}")
            rc_all[pr] = r.returncode
    finally:
        subprocess.run(["git", "-C", "/repo", "worktree", "remove", "--force", wt], capture_output=True)
        shutil.rmtree(wt, ignore_errors=True)
    print("RESULT", rc_all)

main()
