#!/venv/bin/python
"""Development tool: confirm a seeded change and run checks against it.

  tools/seeded_eval.py <dir with patch.diff, demo.py, meta.json> [--suite] [--checks C01,C04] [-- extra vcheck args]

Steps (all in a scratch worktree of /repo HEAD under /tmp, removed afterwards):
  1. demo on the unmodified tree must pass (exit 0);
  2. apply patch.diff; demo must fail (exit != 0);
  3. optionally the repo suite must still pass with the change (--suite);
  4. run the named checks' quick tier with VERIF_REPO=<worktree>; record exit codes and signatures.
Prints a JSON summary; with --record it is merged into meta.json under "evaluation".
"""
import json
import os
import re
import shutil
import subprocess
import sys
import tempfile


def sh(cmd, cwd=None, env=None, timeout=3000):
    r = subprocess.run(cmd, cwd=cwd, env=env, capture_output=True, text=True, timeout=timeout)
    return r.returncode, r.stdout, r.stderr


def run_demo(demo, wt):
    env = dict(os.environ, PYTHONPATH=wt, PYTHONHASHSEED="0")
    if os.path.basename(demo).startswith("test_") or "def test_" in open(demo).read() and "__main__" not in open(demo).read():
        cmd = ["/venv/bin/python", "-m", "pytest", "-q", "-p", "no:cacheprovider", "-x", demo]
    else:
        cmd = ["/venv/bin/python", demo]
    rc, out, err = sh(cmd, cwd=wt, env=env, timeout=900)
    return rc, (out + err)[-400:]


def main():
    a = sys.argv[1:]
    extra = []
    if "--" in a:
        i = a.index("--")
        extra = a[i + 1:]
        a = a[:i]
    d = os.path.abspath(a[0])
    suite = "--suite" in a
    record = "--record" in a
    meta = json.load(open(os.path.join(d, "meta.json")))
    checks = [meta["property"]]
    for x in a[1:]:
        if x.startswith("--checks"):
            checks = x.split("=", 1)[1].split(",") if "=" in x else checks
    wt = tempfile.mkdtemp(prefix="vseed_", dir="/tmp")
    os.rmdir(wt)
    subprocess.run(["git", "-C", "/repo", "worktree", "add", "--detach", "-f", wt, "HEAD"], check=True, capture_output=True)
    summary = {"dir": d, "repo_head": sh(["git", "-C", "/repo", "rev-parse", "--short", "HEAD"])[1].strip()}
    try:
        demo = os.path.join(d, "demo.py")
        if not os.path.exists(demo):
            cands = [f for f in os.listdir(d) if f.endswith(".py")]
            demo = os.path.join(d, cands[0])
        rc0, tail0 = run_demo(demo, wt)
        summary["demo_without_change_rc"] = rc0
        rc, out, err = sh(["git", "-C", wt, "apply", os.path.join(d, "patch.diff")])
        summary["patch_applies"] = rc == 0
        if rc != 0:
            summary["apply_error"] = err[-300:]
            print(json.dumps(summary, indent=1))
            return
        rc1, tail1 = run_demo(demo, wt)
        summary["demo_with_change_rc"] = rc1
        summary["demo_with_change_tail"] = tail1[-200:]
        if suite:
            rc, out, err = sh(["/verif/tools/suite.sh", wt, "8"])
            summary["suite"] = out.strip().splitlines()[-3:]
        summary["checks"] = {}
        for c in checks:
            env = dict(os.environ, VERIF_REPO=wt)
            rc, out, err = sh(["/venv/bin/python", "/verif/vcheck.py", c, "--no-evidence", "--no-selftest"] + extra, env=env)
            sigs = re.findall(r"^violation signature=(\S+) runs=(\d+)", out, re.M)
            summary["checks"][c] = {"rc": rc, "new_signatures": sigs[:8],
                                    "done": [l for l in out.splitlines() if l.startswith("done")][-1:],
                                    "harness": [l for l in out.splitlines() if "HARNESS" in l][:2]}
    finally:
        subprocess.run(["git", "-C", "/repo", "worktree", "remove", "--force", wt], capture_output=True)
        shutil.rmtree(wt, ignore_errors=True)
        # replays written for the mutant are not findings of the real tree
        for c in checks:
            for f in os.listdir("/verif/replays") if os.path.isdir("/verif/replays") else []:
                pass
    print(json.dumps(summary, indent=1))
    if record:
        meta["evaluation"] = summary
        json.dump(meta, open(os.path.join(d, "meta.json"), "w"), indent=1)


main()
