#!/venv/bin/python
"""Regenerate MANIFEST.json from the check modules present in /verif/checks."""
import glob, json, os, re, sys
ROOT = os.path.dirname(os.path.dirname(os.path.abspath(__file__)))
sys.path.insert(0, ROOT)
ENABLED = set(json.load(open(os.path.join(ROOT, "tools", "enabled.json"))))
props = [json.loads(l) for l in open(os.path.join(ROOT, "properties.jsonl"))]
META = json.load(open(os.path.join(ROOT, "tools", "manifest_meta.json")))
for f in sorted(glob.glob(os.path.join(ROOT, "checks", "c*.meta.json"))):
    pid = os.path.basename(f).split(".")[0].upper()
    d = json.load(open(f))
    META.setdefault(pid, {})
    for k, v in d.items():
        META[pid][k] = v
checks, na = [], []
for p in props:
    pid = p["id"]
    mods = glob.glob(os.path.join(ROOT, "checks", f"{pid.lower()}_*.py"))
    m = META.get(pid, {})
    if mods and not m.get("not_applicable") and m.get("technique") and pid in ENABLED:
        checks.append({
            "property_id": pid,
            "quick_cmd": f"/venv/bin/python vcheck.py {pid} --tier quick",
            "thorough_cmd": f"/venv/bin/python vcheck.py {pid} --tier thorough",
            "evidence_file": f"/verif/evidence/{pid}.json",
            "replay_cmd_template": f"/venv/bin/python vcheck.py {pid} --replay {{path}}",
            "engine": "simkit",
            "level_claimed": {"category": "exploration", "text": m["level_text"] + (" Method: " + m["technique"] if m.get("technique_short") and m.get("technique") else ""), "design_ref": f"DESIGN.md section 5, {pid}"},
            "level_note": m["level_note"],
            "technique": m.get("technique_short") or m["technique"][:200],
        })
    else:
        na.append({"property_id": pid, "reason": m.get("not_applicable") or "check not built yet (work in progress); see DESIGN.md section 5 for the plan"})
man = {
    "version": 1,
    "setup_cmd": "/venv/bin/python -c \"import sys; sys.path.insert(0,'/repo'); import happysimulator, hypothesis; print('ok', happysimulator.__file__)\"",
    "hooks": {
        "guard": "HAPPYSIM_VERIF",
        "enable": "no source hooks exist; checks import /repo's working tree directly (VERIF_REPO overrides the path) and set HAPPYSIM_VERIF=1 for symmetry",
        "baseline_off_cmd": "cd /repo && env -u HAPPYSIM_VERIF /venv/bin/python -m pytest -ra -q -p no:cacheprovider --timeout=900 --continue-on-collection-errors",
        "source_commits": [],
        "add_only": True,
    },
    "engines": [{
        "name": "simkit", "path": "/verif/simkit",
        "serves_properties": [c["property_id"] for c in checks],
        "kind_free_text": "deterministic simulation with fault injection: seeded scenario generation (one integer decides everything), real happysimulator engine/components run under harness-owned seams (keyed network delays, partitions, crashes, storage crashes, clock skew, seeded executors), reference models as oracles, signature-based known-finding matching, structural ddmin shrinker, JSON replay files",
    }],
    "checks": checks,
    "not_applicable": na,
    "notes": "Exit 0 held / exit 1 + VIOLATION line / exit 2 harness error. known_findings.json lists recorded genuine defects by narrow signature; fix: commits in /repo are listed there under 'fixed'. See DESIGN.md.",
}
json.dump(man, open(os.path.join(ROOT, "MANIFEST.json"), "w"), indent=1)
print(f"{len(checks)} checks, {len(na)} not_applicable")
