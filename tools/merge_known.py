#!/venv/bin/python
"""Assemble known_findings.json from per-property fragments (known/CNN.json),
per-property fixed lists (checks/cNN.fixed.json) and tools/fixed_manual.json."""
import glob, json, os
ROOT = os.path.dirname(os.path.dirname(os.path.abspath(__file__)))
findings, fixed = [], []
for f in sorted(glob.glob(os.path.join(ROOT, "known", "C*.json"))):
    for e in json.load(open(f)).get("findings", []):
        findings.append(e)
fixed += json.load(open(os.path.join(ROOT, "tools", "fixed_manual.json")))
for f in sorted(glob.glob(os.path.join(ROOT, "checks", "c*.fixed.json"))):
    pid = os.path.basename(f).split(".")[0].upper()
    for e in json.load(open(f)):
        commit = e["commit"] if isinstance(e["commit"], str) else "+".join(e["commit"])
        rep = e.get("replay") or ", ".join(e.get("replays", []))
        sigs = "; ".join(e.get("signatures", []))
        fixed.append(f"fixed: property={pid} {commit} {e['what']}" + (f" [signatures: {sigs}]" if sigs else "") + (f" (replay {rep})" if rep else ""))
out = {
    "_comment": "Recorded genuine defects (narrow signatures, fnmatch patterns) and defects repaired by fix: commits in /repo. Never written at run time. A 'fixed:' entry suppresses nothing.",
    "findings": findings,
    "fixed": fixed,
}
json.dump(out, open(os.path.join(ROOT, "known_findings.json"), "w"), indent=1)
print(len(findings), "findings;", len(fixed), "fixed")
