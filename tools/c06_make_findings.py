#!/venv/bin/python
"""Development tool (not a registered command): (re)write the hand-minimised C06 replay files
under /verif/findings from readable scenarios, after checking that each one still produces
its recorded signature.   tools/c06_make_findings.py [--write]"""
import sys, json, os
sys.path.insert(0, os.path.dirname(os.path.dirname(os.path.abspath(__file__))))
from simkit import repo; repo.activate()
from simkit import runner
mod = runner.load_check("C06")
def holder(**kw):
    d={"kind":"holder","period_us":700000,"phase_us":500000,"cap":8,"amount":4,"hold_us":1000000,
       "co_period_us":100000000,"co_phase_us":90000000,"co_amount":1,"co_hold_us":1000}
    d.update(kw); return d
net1={"n":2,"delta_us":250000,"phase_us":100000,"links":[{"a":0,"b":1,"base_us":10000,"loss":0.0},{"a":1,"b":0,"base_us":10000,"loss":0.0}]}
H = {
 "inflight-advances": ("C06/inflight-advances/ProcessContinuation/gen",
   {"seed":1,"klass":"replay","end_ms":3000,"nodes":[{"kind":"gen","period_us":500000,"phase_us":100000,"steps":[[300000,True]]}],"net":None,
    "faults":[{"kind":"crash","node":0,"start_ms":1200,"end_ms":2000,"cancel":"never"}]}),
 "inflight-advances-holder": ("C06/inflight-advances/ProcessContinuation/holder",
   {"seed":1,"klass":"replay","end_ms":3000,"nodes":[holder(amount=2,hold_us=1000000,period_us=5000000)],"net":None,
    "faults":[{"kind":"pause","node":0,"start_ms":1000,"end_ms":2000,"cancel":"never"}]}),
 "overlap-clears-node": ("C06/overlap-clears/NodeFault/crash-ended-by-pause",
   {"seed":1,"klass":"replay","end_ms":7000,"nodes":[{"kind":"plain","period_us":500000,"phase_us":100000}],"net":None,
    "faults":[{"kind":"crash","node":0,"start_ms":1000,"end_ms":6000,"cancel":"never"},{"kind":"pause","node":0,"start_ms":2000,"end_ms":3000,"cancel":"never"}]}),
 "overlap-clears-latency": ("C06/overlap-clears/InjectLatency/end-of-other-window",
   {"seed":1,"klass":"replay","end_ms":7000,"nodes":[],"net":net1,
    "faults":[{"kind":"latency","link":[0,1],"extra_ms":50,"start_ms":1000,"end_ms":6000,"named":True},{"kind":"latency","link":[0,1],"extra_ms":100,"start_ms":2000,"end_ms":3000,"named":True}]}),
 "overlap-clears-latency-start": ("C06/overlap-clears/InjectLatency/start-of-other-window",
   {"seed":1,"klass":"replay","end_ms":7000,"nodes":[],"net":net1,
    "faults":[{"kind":"latency","link":[0,1],"extra_ms":100,"start_ms":1000,"end_ms":6000,"named":True},{"kind":"latency","link":[0,1],"extra_ms":50,"start_ms":2000,"end_ms":3000,"named":True}]}),
 "overlap-clears-loss": ("C06/overlap-clears/InjectPacketLoss/end-of-other-window",
   {"seed":1,"klass":"replay","end_ms":7000,"nodes":[],"net":net1,
    "faults":[{"kind":"loss","link":[0,1],"rate":1.0,"start_ms":1000,"end_ms":6000,"named":True},{"kind":"loss","link":[0,1],"rate":1.0,"start_ms":2000,"end_ms":3000,"named":False}]}),
 "overlap-clears-loss-start": ("C06/overlap-clears/InjectPacketLoss/start-of-other-window",
   {"seed":1,"klass":"replay","end_ms":7000,"nodes":[],"net":net1,
    "faults":[{"kind":"loss","link":[0,1],"rate":1.0,"start_ms":1000,"end_ms":6000,"named":True},{"kind":"loss","link":[0,1],"rate":0.5,"start_ms":2000,"end_ms":3000,"named":True}]}),
 "overlap-clears-partition": ("C06/overlap-clears/NetworkPartition/end-of-other-window",
   {"seed":1,"klass":"replay","end_ms":7000,"nodes":[],"net":net1,
    "faults":[{"kind":"partition","a":[0],"b":[1],"asym":False,"start_ms":1000,"end_ms":6000,"named":True},{"kind":"partition","a":[1],"b":[0],"asym":False,"start_ms":2000,"end_ms":3000,"named":True}]}),
 "overlap-clears-capacity": ("C06/overlap-clears/ReduceCapacity/end-of-other-window",
   {"seed":1,"klass":"replay","end_ms":7000,"nodes":[holder(amount=1,hold_us=100000,period_us=400000,phase_us=50000,skip=[[700,1001],[1700,2001]])],"net":None,
    "faults":[{"kind":"capacity","node":0,"factor":0.5,"start_ms":1000,"end_ms":6000},{"kind":"capacity","node":0,"factor":0.5,"start_ms":2000,"end_ms":3000}]}),
 "cancel-before-construction": ("C06/cancel-ineffective/FaultSchedule/before-construction",
   {"seed":1,"klass":"replay","end_ms":3000,"nodes":[{"kind":"plain","period_us":500000,"phase_us":100000}],"net":None,
    "faults":[{"kind":"pause","node":0,"start_ms":1000,"end_ms":2000,"cancel":"pre"}]}),
 "capacity-restore-accounting": ("C06/capacity-restore-accounting/ReduceCapacity/available-exceeds",
   {"seed":1,"klass":"replay","end_ms":3000,"nodes":[holder(cap=10,amount=4,hold_us=2000000,period_us=400000,phase_us=300000)],"net":None,
    "faults":[{"kind":"capacity","node":0,"factor":0.5,"start_ms":1000,"end_ms":1200}]}),
 "queued-target-not-frozen": ("C06/queued-target-not-frozen/QueuedResource/resume",
   {"seed":1,"klass":"replay","end_ms":3000,"nodes":[{"kind":"server","period_us":200000,"phase_us":100000,"service_us":300000,"concurrency":1}],"net":None,
    "faults":[{"kind":"pause","node":0,"start_ms":1000,"end_ms":2000}]}),
 "capacity-window-release-raises": ("C06/capacity-window-release-raises/ReduceCapacity/ValueError",
   {"seed":1,"klass":"replay","end_ms":2000,"nodes":[holder(amount=2,hold_us=600000,period_us=5000000,phase_us=800000)],"net":None,
    "faults":[{"kind":"capacity","node":0,"factor":0.5,"start_ms":1000,"end_ms":1900}]}),
 "capacity-restore-no-wake": ("C06/capacity-restore-no-wake/ReduceCapacity/waiter-stranded",
   {"seed":1,"klass":"replay","end_ms":4000,"nodes":[holder(cap=8,amount=2,hold_us=2000000,period_us=50000000,phase_us=1200000,
        co_period_us=50000000,co_phase_us=1300000,co_amount=2,co_hold_us=100000)],"net":None,
    "faults":[{"kind":"capacity","node":0,"factor":0.25,"start_ms":1000,"end_ms":1500}]}),
 "queue-stalled-after-restart": ("C06/queue-stalled-after-restart/QueueDriver/completion-hook-of-killed-item-lost",
   {"seed":1,"klass":"replay","end_ms":12000,"nodes":[{"kind":"qworker","period_us":300000,"phase_us":50000,"service_us":400000,"limit":1}],"net":None,
    "faults":[{"kind":"crash","node":0,"start_ms":2250,"end_ms":6000,"cancel":"never"}]}),
 "capacity-window-overgrant": ("C06/capacity-window-overgrant/ReduceCapacity/held-exceeds-reduced-capacity",
   {"seed":1,"klass":"replay","end_ms":3000,"nodes":[holder()],"net":None,
    "faults":[{"kind":"capacity","node":0,"factor":0.5,"start_ms":1000,"end_ms":2900}]}),
}
FIXED = {"inflight-advances", "inflight-advances-holder", "overlap-clears-node", "overlap-clears-latency",
         "overlap-clears-latency-start", "overlap-clears-loss", "overlap-clears-loss-start", "overlap-clears-partition",
         "cancel-before-construction", "capacity-restore-accounting", "capacity-restore-no-wake"}
ok=True
for slug,(sig,sc) in H.items():
    r = runner.safe_run(mod, sc)
    if slug in FIXED:   # fixed on /repo HEAD (checks/c06.fixed.json): must no longer reproduce; file is kept as recorded
        good = r["sig"] is None and not r.get("harness")
        ok &= good
        print("FIXED-OK " if good else "BAD", slug, r["sig"], r.get("harness"))
        continue
    good = r["sig"]==sig and not r.get("harness")
    ok &= good
    print("OK " if good else "BAD", slug, r["sig"], r.get("harness"), r["msg"][:330])
    if good and "--write" in sys.argv:
        rep={"property":"C06","tier":"quick","verif_seed":None,"run_index":None,"signature":sig,"message":r["msg"],
             "digest":r["digest"],"shrink":"hand-minimised from generated runs (see checks/c06.report.md)","scenario":sc}
        json.dump(rep, open(os.path.join(os.path.dirname(os.path.dirname(os.path.abspath(__file__))), "findings", f"C06-{slug}.json"), "w"), indent=1)
sys.exit(0 if ok else 1)
