#!/venv/bin/python
"""Development tool (not a registered command): (re)write the hand-minimised C03 replay files under
/verif/findings from readable scenarios, after checking that each one produces its recorded signature.

    tools/c03_make_findings.py [--write]
"""
import fnmatch
import json
import os
import sys

sys.path.insert(0, os.path.dirname(os.path.dirname(os.path.abspath(__file__))))
from simkit import repo  # noqa: E402

repo.ensure_hashseed()
repo.activate()
from simkit import runner  # noqa: E402

mod = runner.load_check("C03")


def sc(model, params, seed, **plan):
    return {"model": model, "params": params, "seed": seed, "others": plan.pop("others", []), "plan": plan}


CMS = {"items": 30, "rate": 60.0, "horizon": 1.0, "width": 16, "depth": 2, "k": 5, "weights": False}
CS = {"cap": 2, "clients": 1, "ops": 30, "keys": 8, "backing_cap": None}
PRE = {"pre": 1, "once": False, "post": 1, "sources": 0, "tie_s": 0.5, "pre_first": True}
H = {
    "cms-builtin-hash-of-str": ("C03/sketch_cms:*/stat:cms.*/hashseed", sc("sketch_cms", CMS, 1, hs=[1])),
    "cachedstore-flush-iterates-set": ("C03/cached_store:*-wb/*/hashseed",
                                        sc("cached_store", {**CS, "policy": "lru", "cap": 4, "write_back": True, "ops": 40, "keys": 12}, 3, hs=[1])),
    "randomeviction-choice-from-set": ("C03/cached_store:random*/*/hashseed",
                                        sc("cached_store", {**CS, "policy": "random", "write_back": False}, 1, hs=[1])),
    "randomeviction-choice-from-set-multitier": ("C03/multi_tier_cache:*random*/*/hashseed",
                                                  sc("multi_tier_cache", {"l1": "random", "l2": "lru", "cap1": 2, "cap2": 4, "promo": "always",
                                                                          "clients": 1, "ops": 40, "keys": 12}, 1, hs=[1])),
    "writeback-policy-keys-from-set": ("C03/write_policy:write_back/*/hashseed",
                                        sc("write_policy", {"policy": "write_back", "max_dirty": 3, "ops": 40, "keys": 20}, 1, hs=[1])),
    "event-counter-reset-pre-built-events-repeat": ("C03/prebuilt_events:pre+post/delivery-order:*/repeat",
                                                     sc("prebuilt_events", PRE, 1, repeat=True)),
    "event-counter-reset-pre-built-events-after-others": ("C03/prebuilt_events:pre+post/delivery-order:*/after-others",
                                                           sc("prebuilt_events", PRE, 1, after_others=True,
                                                              others=[{"model": "prebuilt_events", "params": {**PRE, "pre": 0}, "seed": 2}])),
    "sketch-frozenset-item-repr-cms": ("C03/sketch_cms:*-frozenset/stat:cms.*/hashseed",
                                       sc("sketch_cms", {**CMS, "item_kind": "frozenset"}, 1, hs=[1])),
    "sketch-frozenset-item-repr-bloom-hll": ("C03/sketch_others:all-frozenset/stat:*/hashseed",
                                             sc("sketch_others", {**CMS, "rate": 300.0, "item_kind": "frozenset"}, 5, hs=[1, 4242])),
    "parallel-same-instant-order-follows-thread-completion": ("C03/parallel_links:ties*/*/completion-order",
        sc("parallel_links", {"senders": 2, "receivers": 1, "rate": 50.0, "loss": 0.3, "latency": None, "window": None, "horizon": 0.3,
                              "ack": False, "ties": True}, 1)),
    "ttleviction-default-wall-clock": ("C03/ttl_cache_server:default/*/wall-clock",
                                        sc("ttl_cache_server", {"clock": "default", "rate": 150.0, "customers": 20, "cap": 8, "horizon": 1.0}, 1,
                                           wall=["fast"])),
}

# fixed on /repo HEAD (checks/c03.fixed.json): these replays must give sig=None now; with VERIF_REPO=<pre-fix tree> and
# --expect-old they must still give their old signature
FIXED = {"cms-builtin-hash-of-str", "cachedstore-flush-iterates-set", "randomeviction-choice-from-set",
         "randomeviction-choice-from-set-multitier", "writeback-policy-keys-from-set",
         "event-counter-reset-pre-built-events-repeat", "event-counter-reset-pre-built-events-after-others",
         "sketch-frozenset-item-repr-cms", "sketch-frozenset-item-repr-bloom-hll",
         "parallel-same-instant-order-follows-thread-completion"}
write = "--write" in sys.argv
old = "--expect-old" in sys.argv
bad = 0
for slug, (pattern, scenario) in H.items():
    res = runner.safe_run(mod, scenario)
    if slug in FIXED and not old:
        ok = res["sig"] is None and not res.get("harness")
        print(("ok  " if ok else "BAD ") + slug, "fixed: sig =", res["sig"], res.get("harness") or "")
        bad += 0 if ok else 1
        continue            # the recorded replay file (old signature and message) stays as it is
    ok = bool(res["sig"]) and fnmatch.fnmatchcase(res["sig"], pattern) and not res.get("harness")
    print(("ok  " if ok else "BAD ") + slug, res["sig"], res.get("harness") or "")
    if not ok:
        print("   ", res["msg"][:400])
        bad += 1
        continue
    if write:
        rep = {"property": "C03", "tier": "hand-minimised", "signature": res["sig"], "message": res["msg"], "digest": res["digest"],
               "shrink": {"by": "hand"}, "scenario": scenario}
        with open(os.path.join(repo.VERIF, "findings", f"C03-{slug}.json"), "w") as f:
            json.dump(rep, f, indent=1)
sys.exit(1 if bad else 0)
